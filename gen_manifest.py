#!/usr/bin/env python3
"""Regenerates MANIFEST.json from vlib/manifest_src.py (kept valid against /root/.vp/MANIFEST.schema.json)."""
import json, os, sys
sys.path.insert(0, os.path.dirname(os.path.abspath(__file__)))
from vlib.manifest_src import CHECKS, NOT_APPLICABLE, ENGINES, NOTES
props = [json.loads(l)["id"] for l in open(os.path.join(os.path.dirname(os.path.abspath(__file__)), "properties.jsonl"))]
checks = []
for pid in props:
    if pid not in CHECKS:
        continue
    c = CHECKS[pid]
    checks.append({
        "property_id": pid,
        "quick_cmd": "./vcheck %s quick" % pid,
        "thorough_cmd": "./vcheck %s thorough" % pid,
        "evidence_file": "/verif/evidence/%s.json" % pid,
        "replay_cmd_template": "./vcheck %s --replay {path}" % pid,
        "engine": c["engine"],
        "level_claimed": {"category": c["category"], "text": c["text"], "design_ref": c.get("design_ref", "DESIGN.md section 4, " + pid)},
        "level_note": c["note"],
        "technique": c["technique"],
    })
na = [{"property_id": p, "reason": NOT_APPLICABLE.get(p, "check not built yet (work in progress; see DESIGN.md)")} for p in props if p not in CHECKS]
m = {
    "version": 1,
    "setup_cmd": "./setup.sh",
    "hooks": {
        "guard": "STACKSCOPE_VERIF",
        "enable": "no source hooks are needed: scheduling points come from sys.settrace in the harness process, locks are swapped for scheduler-aware ones by the harness, faults are injected through the public registration API; checks import stackscope straight from /repo's working tree (editable install in /venv, PYTHONPATH=/repo for the pyenv interpreters)",
        "baseline_off_cmd": "cd /repo && /venv/bin/python -m pytest -ra -q -p no:cacheprovider --timeout=900 --continue-on-collection-errors",
        "source_commits": [],
        "add_only": True,
    },
    "engines": ENGINES,
    "checks": checks,
    "notes": NOTES,
    "not_applicable": na,
}
json.dump(m, open(os.path.join(os.path.dirname(os.path.abspath(__file__)), "MANIFEST.json"), "w"), indent=1)
print("wrote MANIFEST.json with", len(checks), "checks;", len(na), "not claimed")
