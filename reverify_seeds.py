#!/usr/bin/env python3
"""Re-run seedcheck.py for every kept seeded change against /repo's current HEAD and the current checks
(regression of detection power after checks or the library changed).  usage: reverify_seeds.py [name-glob ...]"""
import fnmatch, json, os, shutil, subprocess, sys
pats = sys.argv[1:] or ["*"]
names = sorted(n for n in os.listdir("/verif/seeded") if any(fnmatch.fnmatch(n, p) for p in pats))
for n in names:
    d = "/verif/seeded/" + n
    try:
        v = json.load(open(d + "/verified.json"))
    except Exception:
        continue
    if "note" in v:
        print(n, "skipped (carries a hand-written note)"); continue
    checks = list(v.get("checks", {}).keys())
    tmp = "/tmp/reseed_" + n
    shutil.rmtree(tmp, ignore_errors=True)
    shutil.copytree(d, tmp)
    os.remove(tmp + "/verified.json")
    p = subprocess.run([sys.executable, "/verif/seedcheck.py", n, tmp] + checks, stdout=subprocess.PIPE, stderr=subprocess.STDOUT)
    shutil.rmtree(tmp, ignore_errors=True)
    try:
        r = json.load(open(d + "/verified.json"))
        caught = any(c["exit"] == 1 and c["violation_lines"] > 0 for c in r["checks"].values())
        print(n, r["repo_head"], "tests:", r["tests_with_change"][:10], "demo:", r["demo_exit_with_change"], r["demo_exit_without_change"],
              "CAUGHT" if caught else "MISSED", {k: (c["exit"], c["violation_lines"]) for k, c in r["checks"].items()}, flush=True)
    except Exception as ex:
        print(n, "ERROR", ex, p.stdout.decode()[-300:], flush=True)
