#!/usr/bin/env python3
"""usage: seedcheck.py <seed-name> <source dir with patch.diff/demo.py/meta.json> <ID>[:tier] [<ID>[:tier] ...]
Copies the seeded change into /verif/seeded/<seed-name>/, applies it to a scratch worktree of /repo's HEAD, runs the
repository's tests, the demonstration and the named checks against that worktree (VERIF_REPO), re-runs the demonstration
on the unchanged worktree, removes the worktree and records everything in /verif/seeded/<seed-name>/verified.json."""
import json, os, shutil, subprocess, sys, time
name, src = sys.argv[1], sys.argv[2]
checks = sys.argv[3:]
dst = "/verif/seeded/" + name
os.makedirs(dst, exist_ok=True)
for f in os.listdir(src):
    if os.path.isfile(os.path.join(src, f)) and not f.endswith(".pyc"):
        shutil.copy(os.path.join(src, f), os.path.join(dst, f))
def sh(cmd, cwd=None, timeout=3600, env=None):
    e = dict(os.environ); e.update(env or {})
    p = subprocess.run(cmd, shell=True, cwd=cwd, stdout=subprocess.PIPE, stderr=subprocess.STDOUT, timeout=timeout, env=e)
    return p.returncode, p.stdout.decode("utf-8", "replace")
# The change is applied to a scratch worktree of /repo's HEAD, never to /repo itself; the checks are pointed at it
# through VERIF_REPO and write their evidence to a scratch directory (the committed evidence stays that of /repo).
wt = "/tmp/seedrun_" + name
sh("git worktree remove --force %s" % wt, "/repo")
rc, out = sh("git worktree add --detach %s HEAD" % wt, "/repo")
if rc != 0:
    print("cannot create worktree:", out); sys.exit(2)
res = {"seed": name, "at": time.strftime("%Y-%m-%dT%H:%M:%SZ", time.gmtime()), "repo_head": sh("git rev-parse --short HEAD", "/repo")[1].strip()}
try:
    rc, out = sh("git apply %s/patch.diff" % dst, wt)
    if rc != 0:
        print("patch does not apply:", out); sys.exit(2)
    rc, out = sh("/venv/bin/python -c 'import stackscope; print(stackscope.__file__)'", wt, env={"PYTHONPATH": wt})
    assert wt in out, out
    rc, out = sh("/venv/bin/python -m pytest -q -p no:cacheprovider --timeout=900 stackscope/_tests", wt, env={"PYTHONPATH": wt})
    res["tests_with_change"] = out.strip().splitlines()[-1]
    rc, out = sh("timeout 600 /venv/bin/python demo.py", dst, env={"PYTHONPATH": wt})
    res["demo_exit_with_change"] = rc
    res["demo_tail_with_change"] = out.strip()[-400:]
    res["checks"] = {}
    for c in checks:
        cid, _, tier = c.partition(":")
        tier = tier or "quick"
        t0 = time.time()
        rc, out = sh("./vcheck %s %s" % (cid, tier), "/verif", timeout=4 * 3600, env={"VERIF_REPO": wt, "VERIF_EVIDENCE_DIR": "/tmp/seedrun_evidence_" + name})
        vio = [l for l in out.splitlines() if l.startswith("VIOLATION")]
        first = ""
        lines = out.splitlines()
        for i, l in enumerate(lines):
            if l.startswith("VIOLATION") and i + 1 < len(lines):
                first = lines[i + 1].strip()[:500]; break
        res["checks"]["%s:%s" % (cid, tier)] = {"exit": rc, "violation_lines": len(vio), "first_detail": first, "wall_s": round(time.time() - t0, 1)}
    sh("git checkout -- .", wt)
    rc, out = sh("timeout 600 /venv/bin/python demo.py", dst, env={"PYTHONPATH": wt})
    res["demo_exit_without_change"] = rc
finally:
    sh("git worktree remove --force %s" % wt, "/repo")
    shutil.rmtree("/tmp/seedrun_evidence_" + name, ignore_errors=True)
res["how"] = "scratch worktree of /repo HEAD + VERIF_REPO override; /repo itself untouched"
json.dump(res, open(dst + "/verified.json", "w"), indent=1)
print(json.dumps(res, indent=1)[:2500])
