#!/bin/sh
# Build step (offline): copy the pure-Python typing_extensions module out of /venv so that
# the dependency-free pyenv interpreters (3.9-3.11) can import stackscope from /repo.
set -e
cd "$(dirname "$0")"
mkdir -p build/pydeps build/runs evidence replays
cp /venv/lib/python3.12/site-packages/typing_extensions.py build/pydeps/typing_extensions.py
echo setup ok
