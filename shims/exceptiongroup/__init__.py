# minimal stand-in for the exceptiongroup backport (offline sandbox)
class BaseExceptionGroup(BaseException):
    def __new__(cls, message, exceptions):
        self = super().__new__(cls, message, exceptions)
        self.message = message
        self.exceptions = tuple(exceptions)
        return self
    def __init__(self, message, exceptions):
        super().__init__(message, exceptions)
class ExceptionGroup(BaseExceptionGroup, Exception):
    pass
