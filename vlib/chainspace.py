"""E2 `chainspace`: all await / yield-from chains of bounded length, every suspension point.
Python 3.9 compatible."""
import itertools
import types


class Probe(Exception):
    pass


@types.coroutine
def trap(tag="trap"):
    return (yield tag)


class AwCoroWrapper(object):  # __await__ returns a coroutine wrapper
    def __init__(s, c):
        s.c = c

    def __await__(s):
        return s.c.__await__()


class AwGen(object):  # __await__ is a generator function that delegates
    def __init__(s, c):
        s.c = c
        s.gen = None

    def __await__(s):
        return s._run()

    def _run(s):
        return (yield from s.c.__await__())


class AwIter(object):  # __await__ returns a plain iterator: a non-frame leaf
    def __init__(s):
        s.it = iter(["leaf"])

    def __await__(s):
        return s.it


def _produce():
    yield "leaf"


def adaptor_over_generator(ch, pre):
    """A C-level iterator adaptor (no throw(), no frame) wrapped directly around a generator that will be suspended when
    the chain is: an exception thrown into the chain stops at the delegating frame and never enters that generator, so
    the adaptor is where the chain ends."""
    g = _produce()
    ch.extra = getattr(ch, "extra", []) + [g]
    if pre:
        return itertools.chain(filter(None, g))   # nested adaptors
    return map(str, g)


class AwAdaptor(object):
    def __init__(s, ch, pre):
        s.it = adaptor_over_generator(ch, pre)

    def __await__(s):
        return s.it


class FalsyAwaitable(object):
    """A future-like leaf: it is its own __await__ iterator and is falsy while nobody has set it."""

    def __init__(s):
        s.n = 0

    def __bool__(s):
        return False

    def __await__(s):
        return s

    def __iter__(s):
        return s

    def __next__(s):
        s.n += 1
        if s.n > 1:
            raise StopIteration("done")
        return "leaf"


class GenLikeAwaitable(object):
    """A future-like leaf that speaks the generator protocol (send/throw/close, like asyncio's FutureIter) without
    being a generator: it has no gi_frame, nothing to unwrap - it is where the chain ends."""

    def __init__(s):
        s.n = 0

    def __await__(s):
        return s

    def __iter__(s):
        return s

    def __next__(s):
        return s.send(None)

    def send(s, v):
        s.n += 1
        if s.n > 1:
            raise StopIteration("done")
        return "leaf"

    def throw(s, typ, val=None, tb=None):
        if val is None:
            val = typ() if isinstance(typ, type) else typ
        raise val

    def close(s):
        pass


LEAF_CODES = set(f.__code__ for f in (GenLikeAwaitable.__next__, GenLikeAwaitable.send, GenLikeAwaitable.throw, GenLikeAwaitable.close))
ENDS = ("trap", "iter", "falsy", "genlike", "adaptor")

SRC = '''
async def co_{i}(nxt, pre):
{hide}    if pre:
        await trap("pre")
    return await nxt

@types.coroutine
def gco_{i}(nxt, pre):
    if pre:
        yield "pre"
    return (yield from nxt)

def gen_{i}(nxt, pre):
{hide}    if pre:
        yield "pre"
    return (yield from nxt)

async def ag_{i}(nxt, pre):
    if pre:
        await trap("pre")
    await nxt
    yield 1

async def agt_{i}(nxt, pre):
    try:
        yield 0
    except ZeroDivisionError:
        if pre:
            await trap("pre")
        await nxt
        yield 1

async def agv_{i}(nxt, pre):
    got = yield 0
    if pre:
        await trap("pre")
    await nxt
    yield got

async def agc_{i}(nxt, pre):
    try:
        yield 0
    finally:
        if pre:
            await trap("pre")
        await nxt

async def cx_{i}(nxt, pre):
    if pre:
        await trap("pre")
    async with Exiter(nxt):
        pass
        pre = None
    return pre

async def cxd_{i}(nxt, pre):
    if pre:
        await trap("pre")
    async with ExiterD(nxt):
        pass
        pre = None
    return pre

async def af_{i}(agen, pre):
    if pre:
        await trap("pre")
    async for _ in agen:
        pass
'''
class Exiter(object):
    """async manager whose __aexit__ awaits the rest of the chain: the frame that owns the `async with` is then
    suspended while leaving the block (on 3.9 its line is the last line of the body, later the with line)"""

    def __init__(s, nxt):
        s.nxt = nxt

    async def __aenter__(s):
        return s

    async def __aexit__(s, *exc):
        await s.nxt
        return False


class ExiterD(Exiter):
    """like Exiter, but its __aexit__ unbinds its first parameter before it awaits: the frame below the exit then has
    no first argument to tell whose exit it is - the context analysis of the owning frame fails (and says so)"""

    async def __aexit__(s, *exc):
        nxt = s.nxt
        del s
        await nxt
        return False


NS = {"types": types, "trap": trap, "Exiter": Exiter, "ExiterD": ExiterD}
for _i in range(8):
    # every second family of link functions declares __tracebackhide__ without ever binding it (the helper idiom
    # `if quiet: __tracebackhide__ = True` with quiet false): such a frame is an ordinary, visible frame
    exec(compile(SRC.format(i=_i, hide=("    if pre is None:\n        __tracebackhide__ = True\n" if _i % 2 else "")), "<chain%d>" % _i, "exec"), NS)

AW_KINDS = ["co", "gco", "wrap", "awgen", "asend", "anext", "afor", "athrow", "aclose", "asendv", "aexit"]
GEN_KINDS = ["yf"]
GENLIKE = (types.CoroutineType, types.GeneratorType, types.AsyncGeneratorType)


class Chain(object):
    def __init__(self):
        self.objs = []  # every generator-like object created, in creation order
        self.leaf = None
        self.root = None

    def reg(self, o):
        self.objs.append(o)
        return o

    def owner_of(self, frame):
        for o in self.objs:
            for attr in ("cr_frame", "gi_frame", "ag_frame"):
                if getattr(o, attr, None) is frame:
                    return o
        return None

    def close(self):
        for o in self.objs:
            try:
                if isinstance(o, types.AsyncGeneratorType):
                    try:
                        o.aclose().send(None)
                    except (StopIteration, StopAsyncIteration, RuntimeError):
                        pass
                    except BaseException:
                        pass
                else:
                    o.close()
            except BaseException:
                pass


def _primed(ch, agen):
    ch.reg(agen)
    try:
        agen.asend(None).send(None)
    except StopIteration:
        pass
    return agen


def build(kinds, end, outer, pre):
    """Build inside-out. Returns a Chain whose .root is a coroutine (outer 'co'/'gco') or a generator ('gen')."""
    ch = Chain()
    if outer == "gen":
        # pure generator chain: links are all 'yf'
        if end == "trap":
            def term():
                yield "trap"
            inner = ch.reg(term())
        elif end in ("falsy", "genlike"):
            ch.leaf = FalsyAwaitable() if end == "falsy" else GenLikeAwaitable()
            inner = ch.leaf
        elif end == "adaptor":
            ch.leaf = adaptor_over_generator(ch, pre)
            inner = ch.leaf
        else:
            ch.leaf = iter(["leaf"])
            inner = ch.leaf
        for depth, k in reversed(list(enumerate(kinds))):
            assert k == "yf"
            inner = ch.reg(NS["gen_%d" % (depth % 7)](inner, pre))
        ch.root = ch.reg(NS["gen_7"](inner, pre))
        return ch
    if end == "trap":
        inner = ch.reg(trap())
    elif end in ("falsy", "genlike"):
        aw = FalsyAwaitable() if end == "falsy" else GenLikeAwaitable()
        ch.leaf = aw
        inner = aw
    elif end == "adaptor":
        aw = AwAdaptor(ch, pre)
        ch.leaf = aw.it
        inner = aw
    else:
        aw = AwIter()
        ch.leaf = aw.it
        inner = aw
    for depth, k in reversed(list(enumerate(kinds))):
        d = str(depth % 7)
        if k == "co":
            inner = ch.reg(NS["co_" + d](inner, pre))
        elif k == "gco":
            nxt = inner if isinstance(inner, GENLIKE[:2]) else inner.__await__()
            inner = ch.reg(NS["gco_" + d](nxt, pre))
        elif k == "wrap":
            inner = AwCoroWrapper(ch.reg(NS["co_" + d](inner, pre)))
        elif k == "awgen":
            inner = AwGen(ch.reg(NS["co_" + d](inner, pre)))
        elif k == "aexit":
            inner = ch.reg(NS["cx_" + d](inner, pre))
        elif k == "aexitd":
            inner = ch.reg(NS["cxd_" + d](inner, pre))
        elif k == "asend":
            inner = ch.reg(NS["ag_" + d](inner, pre)).asend(None)
        elif k == "anext":
            inner = ch.reg(NS["ag_" + d](inner, pre)).__anext__()
        elif k == "afor":
            inner = ch.reg(NS["af_" + d](ch.reg(NS["ag_" + d](inner, False)), pre))
        elif k == "asendv":
            # asend() of a value that is itself an (unstarted) async generator: the awaitable then refers to two
            # objects that have an ag_frame, the generator being driven and the value being sent
            async def decoy():
                yield "decoy"
            inner = _primed(ch, NS["agv_" + d](inner, pre)).asend(decoy())
        elif k == "athrow":
            inner = _primed(ch, NS["agt_" + d](inner, pre)).athrow(ZeroDivisionError())
        elif k == "aclose":
            inner = _primed(ch, NS["agc_" + d](inner, pre)).aclose()
        else:
            raise AssertionError(k)
    if outer == "co":
        ch.root = ch.reg(NS["co_7"](inner, pre))
    else:
        nxt = inner if isinstance(inner, GENLIKE[:2]) else inner.__await__()
        ch.root = ch.reg(NS["gco_7"](nxt, pre))
    return ch


def specs(maxlen):
    """All chain specs: (kinds, end, outer, pre)."""
    for L in range(0, maxlen + 1):
        for kinds in itertools.product(AW_KINDS, repeat=L):
            for end in ENDS:
                for outer in ("co", "gco"):
                    for pre in (False, True):
                        yield (list(kinds), end, outer, pre)
        for end in ENDS:
            for pre in (False, True):
                yield (["yf"] * L, end, "gen", pre)


def failing_analysis_specs():
    """chains through a frame whose context analysis fails (ExiterD): the frames are what they are all the same"""
    for kinds in (["aexitd"], ["co", "aexitd"], ["aexitd", "co"], ["gco", "aexitd", "asend"], ["aexitd", "aexitd"]):
        for pre in (False, True):
            yield (kinds, "trap", "co", pre)


def long_specs():
    """A few deep chains: depth must not matter (the no-progress guard counts steps without progress, not depth)."""
    mix = ["co", "gco", "wrap", "awgen", "asend", "anext", "afor"]
    for n in (60, 99, 101, 150):
        yield (["co"] * n, "trap", "co", False)
    yield (["wrap"] * 60, "trap", "co", False)
    yield ([mix[i % len(mix)] for i in range(84)], "trap", "co", False)
    yield ([mix[i % len(mix)] for i in range(45)], "iter", "gco", False)
    yield (["yf"] * 120, "trap", "gen", False)
    yield (["co"] * 110, "falsy", "co", False)
    yield ([mix[i % len(mix)] for i in range(70)], "genlike", "co", False)


def advance(ch, k):
    """send(None) k times; returns number of successful suspensions (< k if exhausted)."""
    n = 0
    for _ in range(k):
        try:
            ch.root.send(None)
        except StopIteration:
            return n, True
        except BaseException:
            return n, True
        n += 1
    return n, False


def tb_frames(exc):
    out = []
    tb = exc.__traceback__
    while tb is not None:
        if tb.tb_frame.f_code not in LEAF_CODES:
            out.append((tb.tb_frame, tb.tb_lineno))
        tb = tb.tb_next
    return out
