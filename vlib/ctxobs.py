"""Observers comparing stackscope's context report with the shadow model of a generated
program (progspace.Rt).  Python 3.9 compatible."""
import contextlib
import io
import sys
import warnings

import stackscope
from stackscope import lowlevel

from vlib import progspace as ps


def quiet_extract(fn, *a, **kw):
    with warnings.catch_warnings(record=True) as w:
        warnings.simplefilter("always")
        buf = io.StringIO()
        with contextlib.redirect_stderr(buf):
            res = fn(*a, **kw)
    return res, [x for x in w]


def ctx_tuple(c):
    return (c.obj, c.is_async, c.is_exiting, c.varname, c.start_line)


def show(lst):
    return [(repr(x[0]), x[1], x[2], x[3], x[4]) for x in lst]


def compare_exact(got, exp, check_meta=True):
    """got/exp: lists of (obj, is_async, is_exiting, varname, line). Returns list of problems."""
    problems = []
    g3 = [(id(g[0]), g[1], g[2]) for g in got]
    e3 = [(id(e[0]), e[1], e[2]) for e in exp]
    if g3 != e3:
        problems.append("contexts got=%s expected=%s" % (show(got), show(exp)))
        return problems
    if check_meta:
        if [g[4] for g in got] != [e[4] for e in exp]:
            problems.append("start_line got=%s expected=%s" % ([g[4] for g in got], [e[4] for e in exp]))
        for g, e in zip(got, exp):
            if e[3] is None and g[3] is not None and getattr(e[0], "reentrant", False):
                continue  # a with without `as` on a re-entrant manager that another with of the frame did name: the local's name is fine
            if g[3] != e[3]:
                problems.append("varname got=%r expected=%r for %r" % (g[3], e[3], e[0]))
    return problems


class ExactObserver(object):
    """C01 (suspended) / C02 (running) observer: exact equality with the shadow model."""
    wants_probe = False

    def __init__(self, withs, suspended=True, running=False, direct=True):
        self.withs = withs
        self.suspended = suspended
        self.wants_probe = running
        self.direct = direct
        self.fails = []  # (where, n, problems)
        self.nobs = 0
        self.shapes = set()

    def on_suspend(self, rt, target, tag, n):
        if not self.suspended:
            return
        self.nobs += 1
        st, w = quiet_extract(stackscope.extract, target)
        exp = ps.expected_contexts(rt, self.withs)
        problems = []
        if w:
            problems.append("warning: %s" % str(w[0].message)[:200])
        if st.error is not None:
            problems.append("error: %r" % (st.error,))
        if not st.frames or st.frames[0].pyframe.f_code.co_name != "prog":
            problems.append("first frame is not the target's frame: %r" % (st.frames[:1],))
        else:
            got = [ctx_tuple(c) for c in st.frames[0].contexts]
            problems += compare_exact(got, exp)
            if st.frames[0].lineno != st.frames[0].pyframe.f_lineno:
                # looking at the contexts must not change where the frame is reported to be
                problems.append("lineno: Frame.lineno %r but the frame is at line %r" % (st.frames[0].lineno, st.frames[0].pyframe.f_lineno))
            if exp and exp[-1][2]:
                self.shapes.add(("exiting", st.frames[0].pyframe.f_lasti))
            if self.direct:
                fr = st.frames[0].pyframe
                nxt = st.frames[1].pyframe if len(st.frames) > 1 else None
                got2, w2 = quiet_extract(lowlevel.contexts_active_in_frame, fr, target, nxt)
                p2 = compare_exact([ctx_tuple(c) for c in got2], exp)
                if w2:
                    p2.append("warning(direct): %s" % str(w2[0].message)[:200])
                problems += ["contexts_active_in_frame: " + p for p in p2 if ("contexts_active_in_frame: " + p) not in problems and p not in problems]
        if problems:
            self.fails.append((tag, n, problems))

    def on_probe(self, rt, where, progframe, caller):
        self.nobs += 1
        n = rt.nprobe
        st, w = quiet_extract(stackscope.extract_since, progframe)
        exp = ps.expected_contexts(rt, self.withs)
        problems = []
        if w:
            problems.append("warning: %s" % str(w[0].message)[:200])
        if st.error is not None:
            problems.append("error: %r" % (st.error,))
        if not st.frames or st.frames[0].pyframe is not progframe:
            problems.append("first frame is not the target's frame: %r" % (st.frames[:1],))
        else:
            got = [ctx_tuple(c) for c in st.frames[0].contexts]
            problems += compare_exact(got, exp)
            if st.frames[0].lineno != progframe.f_lineno:
                problems.append("lineno: Frame.lineno %r but the frame is at line %r" % (st.frames[0].lineno, progframe.f_lineno))
            # the manager being entered must not be listed (already implied by exactness)
            if self.direct:
                nxt = st.frames[1].pyframe if len(st.frames) > 1 else None
                got2, w2 = quiet_extract(lowlevel.contexts_active_in_frame, progframe, None, nxt)
                p2 = compare_exact([ctx_tuple(c) for c in got2], exp)
                if w2:
                    p2.append("warning(direct): %s" % str(w2[0].message)[:200])
                problems += ["contexts_active_in_frame: " + p for p in p2 if p not in problems]
        if problems:
            self.fails.append((where, -n, problems))


def run_program(body, kind, ctx, make_observer, case_extra=None, src_withs=None, ns=None, pad=False):
    """Render+compile+explore one program; report violations through ctx. Returns (npaths, nobs)."""
    if src_withs is None:
        src, withs = ps.render(body, kind, pad)
    else:
        src, withs = src_withs
    fn = ps.compile_prog(src, ns=ns)
    total = [0, 0]
    stack = [()]
    seen = set()
    while stack:
        prefix = stack.pop()
        obs = make_observer(withs)
        rt, n, outcome = ps.drive(fn, kind, prefix, obs)
        total[0] += 1
        total[1] += obs.nobs
        if outcome is not None and outcome[0] == "raised":
            obs.fails.append(("run", 0, ["disturbed: the program ended with %s: %s although nothing in it raises that" % (outcome[1], outcome[2])]))
        if ctx is not None:
            for sh in getattr(obs, "shapes", ()):
                ctx.distinct(("shape", kind) + sh) if False else None
        for where, nn, problems in obs.fails:
            case = {"src": src, "kind": kind, "prefix": list(prefix), "withs": [[i] + list(v) for i, v in sorted(withs.items())],
                    "where": where, "n": nn}
            if case_extra:
                case.update(case_extra)
            if ns is not None and "ns" not in case:
                for nm, v in ps.NAMESPACES.items():
                    if v is ns:
                        case["ns"] = nm
            if ctx is not None:
                ctx.violation(case, "; ".join(problems)[:1500], sig_of(problems))
        taken = tuple(rt.taken)
        for i in range(len(prefix), min(len(taken), ps.MAXDEC)):
            alt = taken[:i] + (1,)
            if alt not in seen:
                seen.add(alt)
                stack.append(alt)
    return total[0], total[1]


def sig_of(problems):
    kinds = sorted(set(p.split(":")[0].split(" ")[0] for p in problems))
    return "+".join(kinds)


def replay_case(case, make_observer, ns=None):
    if case.get("ns") in ps.NAMESPACES:
        ns = ps.NAMESPACES[case["ns"]]
    withs = dict((w[0], (w[1], w[2], w[3])) for w in case["withs"])
    fn = ps.compile_prog(case["src"], ns=ns)
    obs = make_observer(withs)
    ps.drive(fn, case["kind"], tuple(case["prefix"]), obs)
    out = []
    for where, nn, problems in obs.fails:
        out.append({"where": where, "n": nn, "detail": "; ".join(problems)[:1500]})
    return out
