"""Source of truth for MANIFEST.json (run ./gen_manifest.py after editing)."""
ENGINES = [
    {"name": "progspace (E1)", "path": "vlib/progspace.py", "serves_properties": ["C01", "C02", "C06", "C08", "C20"], "kind_free_text": "grammar-complete enumeration of with/try/loop programs by AST size, rendered for 4 function kinds, decision-prefix DFS over all paths, step driver with shadow model"},
    {"name": "runner", "path": "vlib/runner.py", "serves_properties": [], "kind_free_text": "shards a bounded-exhaustive enumeration over worker processes of each present interpreter (3.9-3.12), merges counts, replays each violation in a fresh process, writes evidence"},
    {"name": "treespace/refmodel (C10)", "path": "vlib/props/c10.py", "serves_properties": ["C10"], "kind_free_text": "exhaustive item trees x hook tables, real extract() vs reference interpreter"},
]
NOTES = "All checks are bounded-exhaustive explorations of the real implementation (no sampling); see DESIGN.md."
NOT_APPLICABLE = {}
CHECKS = {
    "C01": {
        "engine": "progspace (E1)",
        "category": "exploration",
        "technique": "bounded-exhaustive exploration of the implementation: all programs up to AST size S x all decision paths x every suspension point, shadow-model oracle, on every present interpreter",
        "text": "Every function body within the size bound, as coroutine / generator / async generator, is compiled by each present interpreter (3.9-3.12) and driven along every branch/swallow decision path; at every suspension extract() and contexts_active_in_frame() must equal the program's own list of entered-not-exited managers (identity, order, is_async, is_exiting, line, varname) with no warning and no error. Exhaustive within the stated bounds; nothing sampled.",
        "note": "Trusts the generated programs' shadow bookkeeping (vlib/progspace.py Rt/M/AM). Bounds: quick S<=4 core grammar, thorough S<=5 full grammar; <=2 statements per block; <=7 decisions per path.",
    },
    "C02": {
        "engine": "progspace (E1)",
        "category": "exploration",
        "technique": "bounded-exhaustive exploration of the implementation: all programs up to AST size S with probe leaves x all decision paths x every probe point (body, nested call, inside every enter/exit before/after its await), shadow-model oracle",
        "text": "Same program space as C01 plus probe leaves, as plain function / running generator / running coroutine / running async generator; every probe walks f_back to the target frame and compares extract_since(frame) and contexts_active_in_frame(frame, None, next_inner) with the shadow model: entering manager absent, exiting manager last with is_exiting and obj identical. Exhaustive within bounds on 3.9-3.12.",
        "note": "Trusts the shadow bookkeeping; __exit__ are plain methods with a first positional parameter. Bounds: quick S<=3, thorough S<=4 (core) + S<=3 (full grammar).",
    },
    "C10": {
        "engine": "treespace/refmodel (C10)",
        "category": "model_checking",
        "technique": "explicit-state bounded model checking: exhaustive enumeration of item trees x hook-result tables, every trace of a reference interpreter replayed on the real extract()",
        "text": "Every item tree and hook table within the stated bounds is run on the real extract() and compared (frames, leaf, error) with a reference interpreter of the documented unwrap/elaborate rules; non-progressing unwrap chains must end with an error. Exhaustive within bounds, on 3.9-3.12.",
        "note": "Trusts the 60-line reference interpreter in vlib/props/c10.py; cases outside the documented rules (leaf before frame, eagerness-dependent prune extent) are skipped and counted.",
    },
}
