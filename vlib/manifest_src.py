"""Source of truth for MANIFEST.json (run ./gen_manifest.py after editing)."""
ENGINES = [
    {"name": "runner", "path": "vlib/runner.py", "serves_properties": [], "kind_free_text": "shards a bounded-exhaustive enumeration over worker processes of each present interpreter (3.9-3.12), merges counts, replays each violation in a fresh process, writes evidence"},
    {"name": "treespace/refmodel (C10)", "path": "vlib/props/c10.py", "serves_properties": ["C10"], "kind_free_text": "exhaustive item trees x hook tables, real extract() vs reference interpreter"},
]
NOTES = "All checks are bounded-exhaustive explorations of the real implementation (no sampling); see DESIGN.md."
NOT_APPLICABLE = {}
CHECKS = {
    "C10": {
        "engine": "treespace/refmodel (C10)",
        "category": "model_checking",
        "technique": "explicit-state bounded model checking: exhaustive enumeration of item trees x hook-result tables, every trace of a reference interpreter replayed on the real extract()",
        "text": "Every item tree and hook table within the stated bounds is run on the real extract() and compared (frames, leaf, error) with a reference interpreter of the documented unwrap/elaborate rules; non-progressing unwrap chains must end with an error. Exhaustive within bounds, on 3.9-3.12.",
        "note": "Trusts the 60-line reference interpreter in vlib/props/c10.py; cases outside the documented rules (leaf before frame, eagerness-dependent prune extent) are skipped and counted.",
    },
}
