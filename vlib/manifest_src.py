"""Source of truth for MANIFEST.json (run ./gen_manifest.py after editing)."""
ENGINES = [
    {"name": "schedx (E3)", "path": "vlib/schedx.py", "serves_properties": ["C17", "C13", "C07"], "kind_free_text": "stateless CHESS-style explorer: real threads under a baton scheduler, scheduling points = sys.settrace line events in chosen code objects + model locks + explicit gates, preemption-bounded DFS over choice prefixes"},
    {"name": "seqx BFS + schedx (E3/E4)", "path": "vlib/props/c17.py", "serves_properties": ["C17"], "kind_free_text": "BFS to fixpoint over operation histories with canonical state keys; schedule exploration"},
    {"name": "c11 (chain x hook tables vs reference loop)", "path": "vlib/props/c11.py", "serves_properties": ["C11"], "kind_free_text": "exhaustive chains of managers x hook tables, reference loop replayed on fill_context/extract"},
    {"name": "c12 (towers, nestings, customize product, IdentityDict BFS)", "path": "vlib/props/c12.py", "serves_properties": ["C12"], "kind_free_text": "explicit-state search of IdentityDict vs model + exhaustive wrapper towers / nestings / flag products"},
    {"name": "chainspace (E2)", "path": "vlib/chainspace.py", "serves_properties": ["C03", "C16", "C06"], "kind_free_text": "all await/yield-from/asend/athrow/aclose/async-for chains up to length N, rebuilt and advanced to every suspension point"},
    {"name": "c08 (target/layout product + stdlib corpus)", "path": "vlib/props/c08.py", "serves_properties": ["C08"], "kind_free_text": "exhaustive product of with layouts x targets; complete stdlib with-item corpus vs ast"},
    {"name": "progspace (E1)", "path": "vlib/progspace.py", "serves_properties": ["C01", "C02", "C06", "C08", "C20"], "kind_free_text": "grammar-complete enumeration of with/try/loop programs by AST size, rendered for 4 function kinds, decision-prefix DFS over all paths, step driver with shadow model"},
    {"name": "runner", "path": "vlib/runner.py", "serves_properties": [], "kind_free_text": "shards a bounded-exhaustive enumeration over worker processes of each present interpreter (3.9-3.12), merges counts, replays each violation in a fresh process, writes evidence"},
    {"name": "treespace/refmodel (C10)", "path": "vlib/props/c10.py", "serves_properties": ["C10"], "kind_free_text": "exhaustive item trees x hook tables, real extract() vs reference interpreter"},
]
NOTES = "All checks are bounded-exhaustive explorations of the real implementation (no sampling); see DESIGN.md."
NOT_APPLICABLE = {}
CHECKS = {
    "C17": {
        "engine": "seqx BFS + schedx (E3/E4)",
        "category": "model_checking",
        "technique": "explicit-state BFS to a fixpoint over sys.modules histories with a reference model (every transition replayed on the real library) + stateless preemption-bounded schedule exploration of real threads inside add_glue_as_needed",
        "text": "Sequential: for every assignment of 6 glue kinds to 3 synthetic modules the reachable state space of add/remove/re-add/extract histories is explored to a fixpoint, rebuilding each state on the real library; each extract must run exactly the glue the reference expects (once per module object, built-in at most once and never beside module glue, raising glue only warns). Concurrent: all schedules of 2-3 extracting threads (+ an environment thread) with <= B preemptions at line granularity; no double run, never both kinds, the first extraction after a module appeared does not return before its glue ran, no deadlock.",
        "note": "Loop iterations of add_glue_as_needed over non-synthetic modules are executed atomically (they touch no scenario state); glue_lock is replaced by a scheduler-aware lock; canonical state includes the O(1) cache contents read from the function's keyword defaults.",
    },
    "C11": {
        "engine": "c11 (chain x hook tables vs reference loop)",
        "category": "model_checking",
        "technique": "explicit enumeration of all wrapper chains x hook-result tables; each trace of the reference loop is replayed on the real fill_context()/extract() and hook call logs and final Context fields are compared",
        "text": "Every chain of synthetic and generator-based managers within the length bound, with every assignment of elaborate effects and terminal unwrap result, exiting or not, bare or inside extract (suspended in the body and in __aexit__), is run on the implementation and compared with a reference loop: call order elab/unwrap, obj replacement, inner_stack/children reset before re-elaboration, PRUNE hides and stops, None stops, >100 steps errors, bare == in-extract.",
        "note": "Trusts the 40-line reference loop in vlib/props/c11.py; 100 steps exactly is unconstrained.",
    },
    "C12": {
        "engine": "c12 (towers, nestings, customize product, IdentityDict BFS)",
        "category": "model_checking",
        "technique": "explicit-state BFS to a fixpoint of IdentityDict against a list-of-pairs model (every transition executed on the real object) + exhaustive enumeration of wrapper towers, nested-name paths and customize flag products",
        "text": "IdentityDict is explored to a fixpoint (79 states) over 3 keys (two equal-but-distinct) x 2 values x all mapping operations against a reference model. get_code is checked on every well-formed wrapper tower up to depth D and every nesting path up to depth 3 against the code object the base function records when actually called; registrations must hit exactly that object, not an equal one, latest wins; all 2^3 x 3 x 3 customize configurations must show their effect on Frame.hide / hide_line / callee presence / replacement.",
        "note": "Oracle for 'the code that runs' is sys._getframe().f_code recorded by the base function itself.",
    },
    "C06": {
        "engine": "progspace (E1)",
        "category": "exploration",
        "technique": "bounded-exhaustive twin-run exploration: all programs/chains x all decision paths x ALL subsets of observation points x repetition x analysis mode, differential oracle against the unobserved run, weakref/refcount retention checks",
        "text": "For every program (E1) and chain (E2) within the bounds and every subset of its suspension/probe points, the run with extract() at exactly those points must have the same event log, yields and outcome as the unobserved twin; consecutive extractions of an unchanged target compare equal; after dropping results every manager, the target and its frame are collectable and value-stack refcounts return to baseline; a worker killed by a signal is reported with the in-flight case.",
        "note": "The harness's own frames are on the running stack at probe points and are kept identical between repetitions. Refcount baseline is taken after gc.collect(). Bounds in evidence coverage.bounds.",
    },
    "C20": {
        "engine": "progspace (E1)",
        "category": "exploration",
        "technique": "bounded-exhaustive exploration of the C01 program space in referents mode; exhaustive fault-point enumeration (every line event inside the trickery analysis); exhaustive operation sequences of the mode switch from two threads",
        "text": "A: every program x path x suspension with trickery disabled must report an ordered over-approximation of the truly active managers (right obj/is_async, is_exiting entry iff an exit is in progress, extras only the manager being entered/exited). B: a fault raised at every line event inside the trickery analysis (and its self-test) must yield an InspectionWarning, no exception, and the same over-approximation. C: every sequence (length <= 4) of set_trickery_enabled / extract calls from two threads must observe the last mode set.",
        "note": "Fault granularity: source lines of stackscope's own modules; a fault that lands in a generator finaliser is discarded by the interpreter and counted as not delivered. Bounds: A S<=4 (quick core / thorough full + core S<=5), C length 3/4.",
    },
    "C03": {
        "engine": "chainspace (E2)",
        "category": "exploration",
        "technique": "bounded-exhaustive exploration: all link-kind sequences up to length N x terminal x outer kind x every suspension point, oracle = frames an injected exception actually unwinds through",
        "text": "Every await/yield-from chain within the bound is built, advanced to each of its suspension points, extracted, and then a Probe exception is thrown in: extract().frames must be exactly the frames the exception unwinds through (identity, order, line numbers), leaf the terminal non-frame iterator or None, root the target, exhausted targets frameless, with_contexts on/off identical. Exhaustive within N on 3.9-3.12.",
        "note": "Oracle: sys.setprofile return events during the throw (frames) + traceback tb_lineno (lines); CPython <= 3.11 drops frames inward of athrow()/aclose() from the traceback, which is why the traceback alone is not used. Bounds: N<=3 quick, N<=4 thorough.",
    },
    "C08": {
        "engine": "c08 (target/layout product + stdlib corpus)",
        "category": "exploration",
        "technique": "exhaustive product of with-statement layouts x item counts x target forms run on the implementation, plus complete enumeration of every with item in the interpreter's standard library, oracle = ast of the source",
        "text": "Dynamic: every {with, async with} x layout x 1..N items x 34 target forms is compiled, suspended in the body and inspected: start_line must be the with keyword's line, varname None/ast-equal/(unsupported only) a local bound to the manager, supported forms rendered. Static: analyze_with_blocks on every code object of every stdlib module vs the module's ast. On 3.9-3.12.",
        "note": "x[a:None] is accepted for x[a:], and the mangled spelling of a private name (_C__x for __x) is accepted, as the same expression. Dead-code with statements are counted, not judged.",
    },
    "C16": {
        "engine": "chainspace (E2)",
        "category": "exploration",
        "technique": "bounded-exhaustive exploration: every frame of every (chain, suspension point) of the C03 space, running chains probed from inside, threads, greenlets, custom items; contract checks on origin and extract_outermost",
        "text": "For every frame extracted anywhere in the space: origin is None or weak-referenceable with extract_outermost(origin).pyframe being that frame; frames inside a suspended generator-like carry it as origin; extract_outermost(x) equals extract(x).frames[0] field by field and raises (the recorded error) exactly when there are no frames.",
        "note": "Ownership oracle: the harness keeps every generator-like object it creates and maps frames to owners by cr_frame/gi_frame/ag_frame identity.",
    },
    "C01": {
        "engine": "progspace (E1)",
        "category": "exploration",
        "technique": "bounded-exhaustive exploration of the implementation: all programs up to AST size S x all decision paths x every suspension point, shadow-model oracle, on every present interpreter",
        "text": "Every function body within the size bound, as coroutine / generator / async generator, is compiled by each present interpreter (3.9-3.12) and driven along every branch/swallow decision path; at every suspension extract() and contexts_active_in_frame() must equal the program's own list of entered-not-exited managers (identity, order, is_async, is_exiting, line, varname) with no warning and no error. Exhaustive within the stated bounds; nothing sampled.",
        "note": "Trusts the generated programs' shadow bookkeeping (vlib/progspace.py Rt/M/AM). Bounds: quick S<=4 core grammar, thorough S<=5 full grammar; <=2 statements per block; <=7 decisions per path.",
    },
    "C02": {
        "engine": "progspace (E1)",
        "category": "exploration",
        "technique": "bounded-exhaustive exploration of the implementation: all programs up to AST size S with probe leaves x all decision paths x every probe point (body, nested call, inside every enter/exit before/after its await), shadow-model oracle",
        "text": "Same program space as C01 plus probe leaves, as plain function / running generator / running coroutine / running async generator; every probe walks f_back to the target frame and compares extract_since(frame) and contexts_active_in_frame(frame, None, next_inner) with the shadow model: entering manager absent, exiting manager last with is_exiting and obj identical. Exhaustive within bounds on 3.9-3.12.",
        "note": "Trusts the shadow bookkeeping; __exit__ are plain methods with a first positional parameter. Bounds: quick S<=3, thorough S<=4 (core) + S<=3 (full grammar).",
    },
    "C10": {
        "engine": "treespace/refmodel (C10)",
        "category": "model_checking",
        "technique": "explicit-state bounded model checking: exhaustive enumeration of item trees x hook-result tables, every trace of a reference interpreter replayed on the real extract()",
        "text": "Every item tree and hook table within the stated bounds is run on the real extract() and compared (frames, leaf, error) with a reference interpreter of the documented unwrap/elaborate rules; non-progressing unwrap chains must end with an error. Exhaustive within bounds, on 3.9-3.12.",
        "note": "Trusts the 60-line reference interpreter in vlib/props/c10.py; cases outside the documented rules (leaf before frame, eagerness-dependent prune extent) are skipped and counted.",
    },
}
