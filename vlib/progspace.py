"""E1 `progspace`: bounded-exhaustive space of function bodies built from with / async with,
try, loops, if, match and every way of leaving a block; rendered to source for four function
kinds, compiled by the running interpreter, and driven one step at a time along every
decision path.  The generated program keeps its own shadow model (which managers are active,
which one is exiting) in `Rt`, which is the oracle for the C01/C02/C06/C08/C20 checks.

Python 3.9 compatible.
"""
import sys
import types

PY = sys.version_info[:2]

TERMINATORS = ("retK", "retV", "brk", "cont", "raise")
WITH_KINDS = ("with1", "with1n", "awith1", "awith1n", "with2", "awith2", "mixwith2", "mixwith2r", "with3")

CORE = {
    "leaves": ["pass", "susp", "retK", "retV", "brk", "cont", "raise"],
    "one": ["awith1", "with1", "if", "tryfin_p", "tryexc_p"],
    "loop": ["for", "while"],
    "two": ["ifelse", "tryexc", "tryfin"],
    "multi": ["awith2", "mixwith2"],
    "three": [],
}
FULL = {
    "leaves": ["pass", "susp", "retK", "retV", "brk", "cont", "raise"],
    "one": ["awith1", "with1", "awith1n", "with1n", "if", "tryfin_p", "tryexc_p", "match"],
    "loop": ["for", "while", "whileelse_p"],
    "two": ["ifelse", "tryexc", "tryfin", "tryexcelse_p", "tryexcfin_p"],
    "multi": ["awith2", "mixwith2", "with2", "mixwith2r"],
    "three": ["with3"],
}


def grammar(name, extra_leaves=()):
    g = dict((k, list(v)) for k, v in (FULL if name == "full" else CORE).items())
    g["leaves"] = g["leaves"] + list(extra_leaves)
    if PY < (3, 10):
        g["one"] = [x for x in g["one"] if x != "match"]
    return g


def gen_stmt(g, size, in_loop, depth):
    if size == 1:
        for lf in g["leaves"]:
            if lf in ("brk", "cont") and not in_loop:
                continue
            yield (lf,)
        return
    if depth <= 0:
        return
    rest = size - 1
    for body in gen_body(g, rest, in_loop, depth - 1):
        for k in g["one"]:
            if k.endswith("_p"):
                yield (k[:-2], body, (("pass",),))
            else:
                yield (k, body)
    for body in gen_body(g, rest, True, depth - 1):
        for k in g["loop"]:
            if k.endswith("_p"):
                yield (k[:-2], body, (("pass",),))
            else:
                yield (k, body)
    for a in range(1, rest):
        b = rest - a
        for body1 in gen_body(g, a, in_loop, depth - 1):
            for body2 in gen_body(g, b, in_loop, depth - 1):
                for k in g["two"]:
                    if k.endswith("_p"):
                        yield (k[:-2], body1, body2, (("pass",),))
                    else:
                        yield (k, body1, body2)
    if rest >= 2:
        for body in gen_body(g, rest - 1, in_loop, depth - 1):
            for k in g["multi"]:
                yield (k, body)
    if rest >= 3:
        for body in gen_body(g, rest - 2, in_loop, depth - 1):
            for k in g["three"]:
                yield (k, body)


def gen_body(g, size, in_loop, depth, maxlen=2):
    for s in gen_stmt(g, size, in_loop, depth):
        yield (s,)
    if maxlen >= 2:
        for a in range(1, size):
            for s1 in gen_stmt(g, a, in_loop, depth):
                if s1[0] in TERMINATORS:
                    continue
                for s2 in gen_stmt(g, size - a, in_loop, depth):
                    yield (s1, s2)


def has(x, kinds):
    if isinstance(x[0], str):
        if x[0] in kinds:
            return True
        return any(has(y, kinds) for y in x[1:] if isinstance(y, tuple))
    return any(has(s, kinds) for s in x)


def programs(g, size, depth):
    for sz in range(2, size + 1):
        for body in gen_body(g, sz, False, depth):
            yield body


def kind_ok(body, kind):
    """Is this body expressible for function kind?"""
    asyncw = ("awith1", "awith1n", "awith2", "mixwith2", "mixwith2r", "with3")
    if kind in ("gen", "func"):
        if has(body, asyncw):
            return False
    if kind == "func" and has(body, ("susp",)):
        return False
    if kind == "agen" and has(body, ("retV",)):
        return False
    return True


def nontrivial(body, kind):
    if not has(body, WITH_KINDS):
        return False
    if kind == "func":
        return True
    if kind == "gen":
        return has(body, ("susp", "probe", "probex"))
    return True  # async managers suspend in enter/exit by themselves


# ------------------------------------------------------------------ rendering
class Rendered(object):
    def __init__(self):
        self.lines = []
        self.nm = 0
        self.withs = {}  # mgr index -> (line, varname, is_async)

    def emit(self, ind, s):
        self.lines.append("    " * ind + s)
        return len(self.lines)

    def mgr(self):
        self.nm += 1
        return self.nm


def render_body(r, body, ind, kind):
    for st in body:
        render_stmt(r, st, ind, kind)


def _item(r, is_async, with_as):
    i = r.mgr()
    txt = "%s(rt, %d)" % ("AM" if is_async else "M", i)
    if with_as:
        txt += " as v%d" % i
    return i, txt, ("v%d" % i if with_as else None)


def render_with(r, ind, is_async, specs):
    """specs: list of (is_async_item(unused; items share the statement's kind), with_as)"""
    items = []
    for with_as in specs:
        items.append(_item(r, is_async, with_as))
    ln = r.emit(ind, "%swith %s:" % ("async " if is_async else "", ", ".join(t for _, t, _ in items)))
    for i, _, vn in items:
        r.withs[i] = (ln, vn, is_async)
    if getattr(r, "long_blocks", False):
        # a long block body: the with statement's own (relative) jump to its handler, and jumps around / out of the block,
        # then exceed 255 instructions and carry EXTENDED_ARG
        r.emit(ind + 1, "if rt.never:")
        for j in range(LONG_BLOCK_STATEMENTS):
            r.emit(ind + 2, "z = %d" % (2000 + j))


def render_stmt(r, st, ind, kind):
    k = st[0]
    if k == "pass":
        r.emit(ind, "rt.mark()")
    elif k == "susp":
        if kind == "coro":
            r.emit(ind, "await trap('body')")
        elif kind == "agen":
            r.emit(ind, "yield 'body'")
        else:
            r.emit(ind, "yield 'body'")
    elif k == "probe":
        r.emit(ind, "rt.probe('body')")
    elif k == "probex":
        r.emit(ind, "rt.ident(rt.v(), rt.probe('bodyx'), rt.v())")
    elif k == "retK":
        r.emit(ind, "return" if kind == "agen" else "return 5")
    elif k == "retV":
        r.emit(ind, "return rt.v()")
    elif k == "brk":
        r.emit(ind, "break")
    elif k == "cont":
        r.emit(ind, "continue")
    elif k == "raise":
        r.emit(ind, "raise E()")
    elif k in ("awith1", "with1", "awith1n", "with1n"):
        render_with(r, ind, k.startswith("a"), [not k.endswith("n")])
        render_body(r, st[1], ind + 1, kind)
    elif k == "awith2":
        render_with(r, ind, True, [True, False])
        render_body(r, st[1], ind + 1, kind)
    elif k == "with2":
        render_with(r, ind, False, [False, True])
        render_body(r, st[1], ind + 1, kind)
    elif k == "with3":
        render_with(r, ind, True, [True, False, True])
        render_body(r, st[1], ind + 1, kind)
    elif k == "mixwith2":
        render_with(r, ind, False, [False])
        render_with(r, ind + 1, True, [True])
        render_body(r, st[1], ind + 2, kind)
    elif k == "mixwith2r":
        render_with(r, ind, True, [False])
        render_with(r, ind + 1, False, [True])
        render_body(r, st[1], ind + 2, kind)
    elif k == "if":
        r.emit(ind, "if rt.c():")
        render_body(r, st[1], ind + 1, kind)
    elif k == "ifelse":
        r.emit(ind, "if rt.c():")
        render_body(r, st[1], ind + 1, kind)
        r.emit(ind, "else:")
        render_body(r, st[2], ind + 1, kind)
    elif k == "match":
        r.emit(ind, "match rt.c():")
        r.emit(ind + 1, "case 1:")
        render_body(r, st[1], ind + 2, kind)
        r.emit(ind + 1, "case _:")
        r.emit(ind + 2, "rt.mark()")
    elif k == "for":
        r.emit(ind, "for _ in range(2):")
        render_body(r, st[1], ind + 1, kind)
    elif k == "while":
        r.emit(ind, "while rt.c():")
        render_body(r, st[1], ind + 1, kind)
    elif k == "whileelse":
        r.emit(ind, "while rt.c():")
        render_body(r, st[1], ind + 1, kind)
        r.emit(ind, "else:")
        render_body(r, st[2], ind + 1, kind)
    elif k == "tryexc":
        r.emit(ind, "try:")
        render_body(r, st[1], ind + 1, kind)
        r.emit(ind, "except E:")
        render_body(r, st[2], ind + 1, kind)
    elif k == "tryfin":
        r.emit(ind, "try:")
        render_body(r, st[1], ind + 1, kind)
        r.emit(ind, "finally:")
        render_body(r, st[2], ind + 1, kind)
    elif k == "tryexcelse":
        r.emit(ind, "try:")
        render_body(r, st[1], ind + 1, kind)
        r.emit(ind, "except E:")
        render_body(r, st[3], ind + 1, kind)
        r.emit(ind, "else:")
        render_body(r, st[2], ind + 1, kind)
    elif k == "tryexc2":
        # two except clauses: the first one never matches (E2 is never raised), the second one does
        r.emit(ind, "try:")
        render_body(r, st[1], ind + 1, kind)
        r.emit(ind, "except E2:")
        render_body(r, st[2], ind + 1, kind)
        r.emit(ind, "except E:")
        render_body(r, st[3], ind + 1, kind)
    elif k == "tryexcfin":
        r.emit(ind, "try:")
        render_body(r, st[1], ind + 1, kind)
        r.emit(ind, "except E:")
        render_body(r, st[3], ind + 1, kind)
        r.emit(ind, "finally:")
        render_body(r, st[2], ind + 1, kind)
    else:
        raise AssertionError(k)


PAD_CONSTANTS = 300
LONG_BLOCK_STATEMENTS = 140


def render(body, kind, pad=False):
    """pad="long": every with-block body starts with 140 never-executed statements (long relative jumps).
    pad=True: the function gets a docstring and a never-executed block that mentions PAD_CONSTANTS distinct constants
    before anything else, so that every later constant (None included) has an index >= 256 and every instruction that
    loads one - and every jump across the block - needs an EXTENDED_ARG prefix."""
    r = Rendered()
    head = {"coro": "async def prog(rt):", "agen": "async def prog(rt):",
            "gen": "def prog(rt):", "func": "def prog(rt):"}[kind]
    r.emit(0, head)
    if pad == "long":
        r.long_blocks = True
        pad = False
    if pad:
        r.emit(1, '"""padded variant"""')
        r.emit(1, "if rt.never:")
        for j in range(PAD_CONSTANTS):
            r.emit(2, "z = %d" % (1000 + j))
        # a comprehension whose loop variable is captured by a nested function: where comprehensions are inlined (3.12)
        # that name is a local AND a cell variable of this function, which shifts where the value stack starts
        r.emit(2, "z = [(lambda: q) for q in ()]")
    # a local bound to None: a context whose manager object is (momentarily) unknown must not be named after it
    r.emit(1, "z = None")
    # locals whose comparison is hostile: one that claims to equal everything (unittest.mock.ANY), one whose == gives an
    # array-like result without a truth value; the analysis is about identity and must never compare frame locals
    r.emit(1, "zq = rt.anything; zr = rt.arraylike")
    if kind == "agen" and not has(body, ("susp",)):
        # make sure it is an async generator even without a yield in the body
        r.emit(1, "if rt.never: yield None")
    if kind == "gen" and not has(body, ("susp",)):
        r.emit(1, "if rt.never: yield None")
    render_body(r, body, 1, kind)
    return "\n".join(r.lines) + "\n", r.withs


# ------------------------------------------------------------------ runtime
class E(Exception):
    pass


class E2(Exception):
    pass


@types.coroutine
def trap(tag):
    return (yield tag)


MAXDEC = 7


class _Anything(object):
    def __eq__(s, other):
        return True

    def __ne__(s, other):
        return False

    __hash__ = object.__hash__

    def __repr__(s):
        return "<ANY>"


class _NoTruth(object):
    def __bool__(s):
        raise ValueError("The truth value of an array with more than one element is ambiguous")


class _ArrayLike(object):
    def __eq__(s, other):
        return _NoTruth()

    def __ne__(s, other):
        return _NoTruth()

    __hash__ = object.__hash__

    def __repr__(s):
        return "<array>"


class Rt(object):
    never = False
    anything = _Anything()
    arraylike = _ArrayLike()

    def __init__(self, prefix, observer=None):
        self.prefix = prefix
        self.taken = []
        self.active = []
        self.exiting = None
        self.entering = None
        self.log = []
        self.observer = observer
        self.nprobe = 0

    def c(self):
        i = len(self.taken)
        if i >= MAXDEC:
            self.taken.append(0)
            return 0
        v = self.prefix[i] if i < len(self.prefix) else 0
        self.taken.append(v)
        return v

    def v(self):
        return 7

    def mark(self):
        self.log.append("mark")

    def ident(self, *a):
        return a

    def probe(self, where):
        if self.observer is not None and getattr(self.observer, "wants_probe", False):
            self.nprobe += 1
            fr = sys._getframe(1)
            while fr is not None and fr.f_code.co_name != "prog":
                fr = fr.f_back
            self.observer.on_probe(self, where, fr, sys._getframe(1))
        return 1


class M(object):
    is_async = False

    def __init__(s, rt, i):
        s.rt = rt
        s.i = i

    def __repr__(s):
        return "M%d" % s.i

    def __enter__(s):
        rt = s.rt
        rt.entering = s
        rt.probe("enter")
        rt.entering = None
        rt.active.append(s)
        rt.log.append(("enter", s.i))
        return s

    def __exit__(s, *exc):
        rt = s.rt
        rt.exiting = s
        rt.log.append(("exit", s.i, exc[0] is not None))
        rt.probe("exit")
        sw = rt.c() if exc[0] is not None else 0
        rt.exiting = None
        rt.active.remove(s)
        rt.log.append(("exited", s.i, sw))
        return bool(sw)


class AM(object):
    is_async = True

    def __init__(s, rt, i):
        s.rt = rt
        s.i = i

    def __repr__(s):
        return "AM%d" % s.i

    async def __aenter__(s):
        rt = s.rt
        rt.entering = s
        rt.probe("aenter0")
        await trap("aenter")
        rt.probe("aenter1")
        rt.entering = None
        rt.active.append(s)
        rt.log.append(("enter", s.i))
        return s

    async def __aexit__(s, *exc):
        rt = s.rt
        rt.exiting = s
        rt.log.append(("exit", s.i, exc[0] is not None))
        rt.probe("aexit0")
        await trap("aexit")
        rt.probe("aexit1")
        sw = rt.c() if exc[0] is not None else 0
        rt.exiting = None
        rt.active.remove(s)
        rt.log.append(("exited", s.i, sw))
        return bool(sw)


NS = {"AM": AM, "M": M, "E": E, "E2": E2, "trap": trap}


class MC(M):
    """like M, but the function that implements __exit__ goes by another name (`__exit__ = close`)"""

    def close(s, *exc):
        return M.__exit__(s, *exc)
    __exit__ = close


class AMS(AM):
    """like AM, but __aexit__ is a plain function handing back the coroutine of another method"""

    def __aexit__(s, *exc):
        # the exit call is in progress from here on (not only once the coroutine it hands back is being awaited)
        s.rt.exiting = s
        s.rt.probe("aexit-call")
        return s._shutdown(*exc)

    async def _shutdown(s, *exc):
        return await AM.__aexit__(s, *exc)


class AMI(AM):
    """like AM, but __aenter__/__aexit__ are plain functions and the manager is its own awaitable iterator, written
    as a plain class: awaiting it makes the interpreter call __next__ through the C iterator slot instead of resuming
    a coroutine/generator frame inline.  (The code running below the exit is still a method of the manager, so its
    first argument is the manager - the documented way the exiting manager's identity is recovered.)"""

    def __aenter__(s):
        s._phase = ("enter", None)
        s._st = 0
        return s

    def __aexit__(s, *exc):
        s._phase = ("exit", exc)
        s._st = 0
        s.rt.exiting = s
        s.rt.probe("aexit-call")
        return s

    def __await__(s):
        return s

    def __iter__(s):
        return s

    def __next__(s):
        rt = s.rt
        phase, exc = s._phase
        if phase == "enter":
            if s._st == 0:
                s._st = 1
                rt.entering = s
                rt.probe("aenter0")
                return "aenter"
            rt.probe("aenter1")
            rt.entering = None
            rt.active.append(s)
            rt.log.append(("enter", s.i))
            raise StopIteration(s)
        if s._st == 0:
            s._st = 1
            rt.exiting = s
            rt.log.append(("exit", s.i, exc[0] is not None))
            rt.probe("aexit0")
            return "aexit"
        rt.probe("aexit1")
        sw = rt.c() if exc[0] is not None else 0
        rt.exiting = None
        rt.active.remove(s)
        rt.log.append(("exited", s.i, sw))
        raise StopIteration(bool(sw))


class _Ent(object):
    """one activation of a re-entrant manager: what the shadow model lists (the same manager object may be active
    several times in one frame, each time for another with-block)"""

    def __init__(s, obj, i):
        s.obj = obj
        s.i = i
        s.is_async = obj.is_async

    def __repr__(s):
        return "%r@with%d" % (s.obj, s.i)


def mgr_of(entry):
    """the manager object of an entry of rt.active / rt.exiting / rt.entering"""
    return getattr(entry, "obj", entry)


class RM(object):
    """a re-entrant manager: ONE object per run serves every sync with-block of the program"""
    is_async = False
    reentrant = True

    def __init__(s, rt):
        s.rt = rt
        s.pending = []
        s.ents = []

    def __repr__(s):
        return "RM"

    def __enter__(s):
        rt = s.rt
        ent = _Ent(s, s.pending.pop())
        rt.entering = ent
        rt.probe("enter")
        rt.entering = None
        s.ents.append(ent)
        rt.active.append(ent)
        rt.log.append(("enter", ent.i))
        return s

    def __exit__(s, *exc):
        rt = s.rt
        ent = s.ents[-1]
        rt.exiting = ent
        rt.log.append(("exit", ent.i, exc[0] is not None))
        rt.probe("exit")
        sw = rt.c() if exc[0] is not None else 0
        rt.exiting = None
        s.ents.pop()
        rt.active.remove(ent)
        rt.log.append(("exited", ent.i, sw))
        return bool(sw)


class ARM(object):
    """the async counterpart: ONE object per run serves every async with-block of the program"""
    is_async = True
    reentrant = True

    def __init__(s, rt):
        s.rt = rt
        s.pending = []
        s.ents = []

    def __repr__(s):
        return "ARM"

    async def __aenter__(s):
        rt = s.rt
        ent = _Ent(s, s.pending.pop())
        rt.entering = ent
        rt.probe("aenter0")
        await trap("aenter")
        rt.probe("aenter1")
        rt.entering = None
        s.ents.append(ent)
        rt.active.append(ent)
        rt.log.append(("enter", ent.i))
        return s

    async def __aexit__(s, *exc):
        rt = s.rt
        ent = s.ents[-1]
        rt.exiting = ent
        rt.log.append(("exit", ent.i, exc[0] is not None))
        rt.probe("aexit0")
        await trap("aexit")
        rt.probe("aexit1")
        sw = rt.c() if exc[0] is not None else 0
        rt.exiting = None
        s.ents.pop()
        rt.active.remove(ent)
        rt.log.append(("exited", ent.i, sw))
        return bool(sw)


def _m_reentrant(rt, i):
    m = rt.__dict__.get("_rm")
    if m is None:
        m = rt.__dict__["_rm"] = RM(rt)
    m.pending.append(i)
    return m


def _am_reentrant(rt, i):
    m = rt.__dict__.get("_arm")
    if m is None:
        m = rt.__dict__["_arm"] = ARM(rt)
    m.pending.append(i)
    return m


class MR(M):
    """like M, but where M would swallow the exception it leaves with, MR's __exit__ raises a NEW exception instead"""

    def __exit__(s, *exc):
        rt = s.rt
        rt.exiting = s
        rt.log.append(("exit", s.i, exc[0] is not None))
        rt.probe("exit")
        sw = rt.c() if exc[0] is not None else 0
        rt.exiting = None
        rt.active.remove(s)
        rt.log.append(("exited", s.i, sw))
        if sw:
            raise E("raised by the __exit__ of %r" % (s,))
        return False


class AMR(AM):
    async def __aexit__(s, *exc):
        rt = s.rt
        rt.exiting = s
        rt.log.append(("exit", s.i, exc[0] is not None))
        rt.probe("aexit0")
        await trap("aexit")
        rt.probe("aexit1")
        sw = rt.c() if exc[0] is not None else 0
        rt.exiting = None
        rt.active.remove(s)
        rt.log.append(("exited", s.i, sw))
        if sw:
            raise E("raised by the __aexit__ of %r" % (s,))
        return False


class AMC(AM):
    """like AM, but the coroutine function that implements __aexit__ goes by another name (`__aexit__ = aclose`)"""

    async def aclose(s, *exc):
        return await AM.__aexit__(s, *exc)
    __aexit__ = aclose


def _logged(fn):
    def call(*a, **kw):   # a decorator that does not use functools.wraps: the method's __name__ is "call"
        return fn(*a, **kw)
    return call


class AMW(AM):
    """like AM, but __aexit__ is wrapped by a decorator that does not preserve its name"""
    __aexit__ = _logged(AM.__aexit__)


def _am_aliased(rt, i):
    return (AMC, AMW)[i % 2](rt, i)


def _m_mixed(rt, i):
    return (M if i % 2 else MC)(rt, i)


def _am_mixed(rt, i):
    return (AMS, AM, AMI)[i % 3](rt, i)


# managers alternate between the plain classes and the ones whose exit functions have unusual names
NS_MIXED = {"AM": _am_mixed, "M": _m_mixed, "E": E, "E2": E2, "trap": trap}
# every with-block of a program is served by one and the same (re-entrant) manager object per kind
NS_REENTRANT = {"AM": _am_reentrant, "M": _m_reentrant, "E": E, "E2": E2, "trap": trap}
# managers that answer an exception with a new exception raised from __exit__/__aexit__ (instead of swallowing it)
NS_RAISING = {"AM": AMR, "M": MR, "E": E, "E2": E2, "trap": trap}
# every manager's exit function thinks its name is something other than __exit__/__aexit__
NS_ALIASED = {"AM": _am_aliased, "M": MC, "E": E, "E2": E2, "trap": trap}
NAMESPACES = {"mixed": NS_MIXED, "reentrant": NS_REENTRANT, "raising": NS_RAISING, "aliased": NS_ALIASED}


def compile_prog(src, filename="<prog>", ns=None):
    ns = dict(NS if ns is None else ns)
    exec(compile(src, filename, "exec"), ns)
    return ns["prog"]


def drive(fn, kind, prefix, observer):
    """Run one decision path to completion. observer.on_suspend(rt, target, tag, n) is called at
    every suspension; returns (rt, nobs, outcome)."""
    rt = Rt(prefix, observer)
    nobs = 0
    outcome = None
    if kind == "func":
        try:
            outcome = ("ret", fn(rt))
        except E:
            outcome = ("exc", "E")
        except Exception as ex:
            # nothing in a generated program raises anything else: this is the observation disturbing its target
            outcome = ("raised", type(ex).__name__, str(ex)[:120])
        return rt, rt.nprobe, outcome
    target = fn(rt)
    try:
        if kind in ("coro", "gen"):
            while True:
                tag = target.send(None)
                nobs += 1
                rt.log.append(("susp", tag))
                if observer is not None:
                    observer.on_suspend(rt, target, tag, nobs)
        else:
            while True:
                aw = target.asend(None)
                try:
                    while True:
                        tag = aw.send(None)
                        nobs += 1
                        rt.log.append(("susp", tag))
                        if observer is not None:
                            observer.on_suspend(rt, target, tag, nobs)
                except StopIteration as ex:
                    nobs += 1
                    rt.log.append(("yield", ex.value))
                    if observer is not None:
                        observer.on_suspend(rt, target, "yield", nobs)
    except StopIteration as ex:
        outcome = ("ret", ex.value)
    except StopAsyncIteration:
        outcome = ("ret", None)
    except E:
        outcome = ("exc", "E")
    except Exception as ex:
        outcome = ("raised", type(ex).__name__, str(ex)[:120])
    return rt, nobs + rt.nprobe, outcome


def explore_paths(fn, kind, observer, on_path=None):
    """DFS over decision prefixes. Returns (npaths, nobs)."""
    stack = [()]
    seen = set()
    npaths = 0
    nobs = 0
    while stack:
        prefix = stack.pop()
        if hasattr(observer, "begin_path"):
            observer.begin_path(prefix)
        rt, n, outcome = drive(fn, kind, prefix, observer)
        if on_path is not None:
            on_path(prefix, rt, outcome)
        npaths += 1
        nobs += n
        taken = tuple(rt.taken)
        for i in range(len(prefix), min(len(taken), MAXDEC)):
            alt = taken[:i] + (1,)
            if alt not in seen:
                seen.add(alt)
                stack.append(alt)
    return npaths, nobs


def two_clause_programs(g, inner_size=2):
    """try: raise E / except E2: <A> / except E: <B> for all small bodies A, B that contain a with-block: the exit of a
    with-block in a LATER except clause, next to an earlier clause that holds blocks of its own"""
    small = [b for b in programs(g, 2, 2) if has(b, WITH_KINDS)]
    for a in small:
        for b in small:
            yield (("tryexc2", (("raise",),), a, b),)
    if inner_size > 2:
        # larger bodies on one side at a time
        small_set = set(small)
        bigger = [b for b in programs(g, inner_size, 2) if has(b, WITH_KINDS) and b not in small_set]
        for big in bigger:
            for sm in small:
                yield (("tryexc2", (("raise",),), big, sm),)
                yield (("tryexc2", (("raise",),), sm, big),)


def expected_contexts(rt, withs):
    """[(manager, is_async, is_exiting, varname, line)] outermost first, from the shadow model."""
    out = []
    for m in rt.active:
        ln, vn, a = withs[m.i]
        out.append((mgr_of(m), a, m is rt.exiting, vn, ln))
    return out
