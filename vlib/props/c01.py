"""C01 - contexts of a suspended frame are exactly the entered-but-not-exited managers.
E1 progspace: all programs x all decision paths x every suspension, three function kinds,
every present interpreter.  3.9 compatible."""
from vlib import progspace as ps

LEVEL = "exploration"
RULE = ("Bounded-exhaustive: every function body of AST size <= S (nesting <= 3, <= 2 statements per block) over "
        "with/async with (1-3 items, with and without `as`), try/except/else/finally, for, while(/else), if(/else), match, "
        "and leaves pass/suspend/return K/return v/break/continue/raise, rendered as coroutine, generator and async "
        "generator, compiled by each present interpreter; every branch/swallow decision path (DFS over decision "
        "prefixes, <= 7 decisions); extract() and contexts_active_in_frame() at every suspension (including inside "
        "__aenter__/__aexit__) compared with the program's own shadow list of entered-not-exited managers "
        "(identity, order, is_async, is_exiting, start_line, varname; no InspectionWarning, no Stack.error). "
        "evaluations = observations; distinct_nontrivial = distinct (program, kind, interpreter) containing a with and "
        "a suspension.")
ASSUMPTIONS = [
    "managers define __exit__/__aexit__ as plain methods",
    "bodies have <= 2 statements per block; AST size bound as stated in coverage.bounds",
    "PyPy, CPython 3.8 and 3.13 are not present / not supported by this commit",
]


def params(tier):
    if tier == "quick":
        return {"grammar": "core", "size": 4, "depth": 3}
    return {"grammar": "full", "size": 5, "depth": 3}


def bounds(tier):
    return params(tier)


def legs(tier):
    from vlib.runner import Leg
    n = 4 if tier == "quick" else 16
    return [Leg(v, n) for v in ("3.12", "3.11", "3.10", "3.9")]


KINDS = ("coro", "gen", "agen")


def make_observer(withs):
    from vlib.ctxobs import ExactObserver
    return ExactObserver(withs, suspended=True, running=False, direct=True)


def run(ctx):
    from vlib.ctxobs import run_program
    p = params(ctx.tier)
    g = ps.grammar(p["grammar"])
    idx = 0
    for body in ps.programs(g, p["size"], p["depth"]):
        for kind in KINDS:
            if not ps.kind_ok(body, kind):
                continue
            if not ps.nontrivial(body, kind):
                ctx.count("trivial_skipped")
                continue
            idx += 1
            if not ctx.mine(idx):
                continue
            if idx % 500 == 0:
                ctx.inflight({"body": repr(body), "kind": kind})
            npaths, nobs = run_program(body, kind, ctx, make_observer)
            ctx.count("programs")
            ctx.count("distinct_nontrivial")
            ctx.count("paths", npaths)
            ctx.count("evaluations", nobs)
            if idx % 9973 == 0:
                ctx.sample({"kind": kind, "src": ps.render(body, kind)[0]})


def replay(case):
    from vlib.ctxobs import replay_case
    return replay_case(case, make_observer)
