"""C01 - contexts of a suspended frame are exactly the entered-but-not-exited managers.
E1 progspace: all programs x all decision paths x every suspension, three function kinds,
every present interpreter.  3.9 compatible."""
from vlib import progspace as ps

LEVEL = "exploration"
RULE = ("Bounded-exhaustive: every function body of AST size <= S (nesting <= 3, <= 2 statements per block) over "
        "with/async with (1-3 items, with and without `as`), try/except/else/finally, for, while(/else), if(/else), match, "
        "and leaves pass/suspend/return K/return v/break/continue/raise, rendered as coroutine, generator and async "
        "generator, compiled by each present interpreter; every branch/swallow decision path (DFS over decision "
        "prefixes, <= 7 decisions); extract() and contexts_active_in_frame() at every suspension (including inside "
        "__aenter__/__aexit__) compared with the program's own shadow list of entered-not-exited managers "
        "(identity, order, is_async, is_exiting, start_line, varname; no InspectionWarning, no Stack.error); plus every `try: raise / except <never matches>: A / except E: B` over all small with-bodies A, B; bodies of size <= 3 (thorough 4) are run a second time with one re-entrant manager object per kind serving every with-block of the program, again (those that can raise) with managers whose __exit__/__aexit__ raises a new exception where the default ones swallow, and (bodies of size <= 4; quick: of the size-4 ones those with an async with and a try) a third time padded with 300 constants, and (size <= 3) with 140 never-executed statements at the start of every with-block body (relative jumps longer than 255 instructions) (every constant load and long jump then carries EXTENDED_ARG). "
        "evaluations = observations; distinct_nontrivial = distinct (program, kind, interpreter) containing a with and "
        "a suspension.")
ASSUMPTIONS = [
    "managers define __exit__/__aexit__ as plain methods",
    "bodies have <= 2 statements per block; AST size bound as stated in coverage.bounds",
    "PyPy, CPython 3.8 and 3.13 are not present / not supported by this commit",
]


def params(tier):
    if tier == "quick":
        return {"grammar": "core", "size": 4, "depth": 3}
    return {"grammar": "full", "size": 5, "depth": 3}


def bounds(tier):
    return params(tier)


RULE += ' Round 9: every program of size <= 3 (thorough 4) also with managers whose exit functions go by other names (namespace `aliased`).'


def legs(tier):
    from vlib.runner import Leg
    n = 4 if tier == "quick" else 16
    return [Leg(v, n) for v in ("3.12", "3.11", "3.10", "3.9")]


KINDS = ("coro", "gen", "agen")


def ps_size(x):
    if isinstance(x[0], str):
        return 1 + sum(ps_size(y) for y in x[1:] if isinstance(y, tuple))
    return sum(ps_size(st) for st in x)


def make_observer(withs):
    from vlib.ctxobs import ExactObserver
    return ExactObserver(withs, suspended=True, running=False, direct=True)


def deep_programs(probe=False):
    """Deeply nested blocks (CPython allows 20 statically nested blocks): (label, kind, src, withs).
    probe=True: the variants for running frames (C02): plain function and coroutine, a probe() call in the body."""
    out = []
    for kind in (("func", "coro") if probe else ("coro", "gen", "agen")):
        head = {"coro": "async def prog(rt):", "agen": "async def prog(rt):", "gen": "def prog(rt):", "func": "def prog(rt):"}[kind]
        susp = {"coro": "await trap('body')", "agen": "yield 'body'", "gen": "yield 'body'"}.get(kind)
        if probe:
            susp = "rt.probe('body')"
        asyncs = kind not in ("gen", "func")
        for k in (6, 10, 11, 12, 15):
            # one with statement, k items
            lines = [head, "    z = None"]
            withs = {}
            is_a = asyncs
            items = ", ".join("%s(rt, %d) as v%d" % ("AM" if is_a else "M", i, i) for i in range(1, k + 1))
            lines.append("    %swith %s:" % ("async " if is_a else "", items))
            for i in range(1, k + 1):
                withs[i] = (3, "v%d" % i, is_a)
            lines.append("        " + susp)
            out.append(("items%d" % k, kind, "\n".join(lines) + "\n", withs))
            # k nested statements, alternating sync / async where possible
            lines = [head, "    z = None"]
            withs = {}
            ind = 1
            for i in range(1, k + 1):
                is_a = asyncs and i % 2 == 0
                lines.append("    " * ind + "%swith %s(rt, %d) as v%d:" % ("async " if is_a else "", "AM" if is_a else "M", i, i))
                withs[i] = (len(lines), "v%d" % i, is_a)
                ind += 1
            lines.append("    " * ind + susp)
            out.append(("nested%d" % k, kind, "\n".join(lines) + "\n", withs))
        for k in (3, 4, 5, 6):
            # few managers, many try blocks in between: with / try-finally / try-except alternating, 3k levels
            lines = [head, "    z = None"]
            withs = {}
            ind = 1
            for i in range(1, k + 1):
                is_a = asyncs and i % 2 == 1
                lines.append("    " * ind + "%swith %s(rt, %d) as v%d:" % ("async " if is_a else "", "AM" if is_a else "M", i, i))
                withs[i] = (len(lines), "v%d" % i, is_a)
                ind += 1
                lines.append("    " * ind + "try:")
                ind += 1
                lines.append("    " * ind + "try:")
                ind += 1
            lines.append("    " * ind + susp)
            for i in range(k, 0, -1):
                ind -= 1
                lines.append("    " * ind + "except E:")
                lines.append("    " * (ind + 1) + "rt.mark()")
                ind -= 1
                lines.append("    " * ind + "finally:")
                lines.append("    " * (ind + 1) + "rt.mark()")
                ind -= 1
            out.append(("mixed%d" % k, kind, "\n".join(lines) + "\n", withs))
    return out


def run(ctx):
    from vlib.ctxobs import run_program
    p = params(ctx.tier)
    for di, (label, kind, src, withs) in enumerate(deep_programs()):
        if not ctx.mine(di):
            continue
        npaths, nobs = run_program(None, kind, ctx, make_observer, case_extra={"deep": label}, src_withs=(src, withs))
        ctx.count("deep_programs")
        ctx.count("distinct_nontrivial")
        ctx.count("paths", npaths)
        ctx.count("evaluations", nobs)
    idx = 0
    # the same shapes with ONE re-entrant manager object per kind serving every with-block (AST size <= 3 quick / 4 thorough)
    g3 = ps.grammar("core")
    for body in ps.programs(g3, 3 if ctx.tier == "quick" else 4, p["depth"]):
        for kind in KINDS:
            if not ps.kind_ok(body, kind) or not ps.nontrivial(body, kind):
                continue
            idx += 1
            if not ctx.mine(idx):
                continue
            npaths, nobs = run_program(body, kind, ctx, make_observer, ns=ps.NS_REENTRANT)
            ctx.count("reentrant_programs")
            ctx.count("distinct_nontrivial")
            ctx.count("paths", npaths)
            ctx.count("evaluations", nobs)
    # managers whose exit functions go by other names (`__exit__ = close`, `__aexit__ = aclose`, an un-wrapped decorator)
    for body in ps.programs(g3, 3 if ctx.tier == "quick" else 4, p["depth"]):
        for kind in KINDS:
            if not ps.kind_ok(body, kind) or not ps.nontrivial(body, kind):
                continue
            idx += 1
            if not ctx.mine(idx):
                continue
            npaths, nobs = run_program(body, kind, ctx, make_observer, ns=ps.NS_ALIASED)
            ctx.count("aliased_exit_programs")
            ctx.count("distinct_nontrivial")
            ctx.count("paths", npaths)
            ctx.count("evaluations", nobs)
    for body in ps.programs(g3, 3 if ctx.tier == "quick" else 4, p["depth"]):
        if not ps.has(body, ("raise",)):
            continue
        for kind in KINDS:
            if not ps.kind_ok(body, kind) or not ps.nontrivial(body, kind):
                continue
            idx += 1
            if not ctx.mine(idx):
                continue
            npaths, nobs = run_program(body, kind, ctx, make_observer, ns=ps.NS_RAISING)
            ctx.count("raising_exit_programs")
            ctx.count("distinct_nontrivial")
            ctx.count("paths", npaths)
            ctx.count("evaluations", nobs)
    # padded variants: >= 256 constants before the first None (EXTENDED_ARG on every constant load and long jump)
    ASYNC_WITHS = ("awith1", "awith1n", "awith2", "mixwith2", "mixwith2r")
    for body in ps.programs(g3, 4, p["depth"]):
        if ctx.tier == "quick" and ps_size(body) > 3 and not (ps.has(body, ("tryexc", "tryfin")) and ps.has(body, ASYNC_WITHS)):
            continue   # quick: of the size-4 bodies only those with an async with and a try (await sequences in cold blocks)
        for kind in KINDS:
            if not ps.kind_ok(body, kind) or not ps.nontrivial(body, kind):
                continue
            idx += 1
            if not ctx.mine(idx):
                continue
            npaths, nobs = run_program(body, kind, ctx, make_observer, pad=True)
            ctx.count("padded_programs")
            ctx.count("distinct_nontrivial")
            ctx.count("paths", npaths)
            ctx.count("evaluations", nobs)
    # a with-block in the second except clause of a try whose first clause holds blocks too
    for body in ps.two_clause_programs(g3, 2 if ctx.tier == "quick" else 3):
        for kind in KINDS:
            if not ps.kind_ok(body, kind) or not ps.nontrivial(body, kind):
                continue
            idx += 1
            if not ctx.mine(idx):
                continue
            npaths, nobs = run_program(body, kind, ctx, make_observer)
            ctx.count("two_clause_programs")
            ctx.count("distinct_nontrivial")
            ctx.count("paths", npaths)
            ctx.count("evaluations", nobs)
    # long block bodies (> 255 instructions inside every with-block): relative jumps with EXTENDED_ARG
    for body in ps.programs(g3, 3, p["depth"]):
        for kind in KINDS:
            if not ps.kind_ok(body, kind) or not ps.nontrivial(body, kind):
                continue
            idx += 1
            if not ctx.mine(idx):
                continue
            npaths, nobs = run_program(body, kind, ctx, make_observer, pad="long")
            ctx.count("long_block_programs")
            ctx.count("distinct_nontrivial")
            ctx.count("paths", npaths)
            ctx.count("evaluations", nobs)
    g = ps.grammar(p["grammar"])
    for body in ps.programs(g, p["size"], p["depth"]):
        for kind in KINDS:
            if not ps.kind_ok(body, kind):
                continue
            if not ps.nontrivial(body, kind):
                ctx.count("trivial_skipped")
                continue
            idx += 1
            if not ctx.mine(idx):
                continue
            if idx % 500 == 0:
                ctx.inflight({"body": repr(body), "kind": kind})
            npaths, nobs = run_program(body, kind, ctx, make_observer)
            ctx.count("programs")
            ctx.count("distinct_nontrivial")
            ctx.count("paths", npaths)
            ctx.count("evaluations", nobs)
            if idx % 9973 == 0:
                ctx.sample({"kind": kind, "src": ps.render(body, kind)[0]})


def replay(case):
    from vlib.ctxobs import replay_case
    return replay_case(case, make_observer)
