"""C02 - contexts of a frame running on the calling thread are exact, also mid-enter/exit.
E1 progspace with probe() leaves and probes inside every __enter__/__exit__/__aenter__/__aexit__
(before and after their await).  3.9 compatible."""
from vlib import progspace as ps

LEVEL = "exploration"
RULE = ("Bounded-exhaustive: the C01 program space (AST size <= S) with two extra leaves, probe() as a statement and "
        "probe() nested in a call expression (non-empty value stack), rendered as plain function, generator, coroutine "
        "and async generator, every `try: raise / except <never matches>: A / except E: B` over small with-bodies A, B (bodies of size <= 3 a second time with one re-entrant manager object per kind serving every with-block, and a third time - those that can raise - with managers whose __exit__/__aexit__ raises a new exception where the default ones swallow), plus 28 deeply nested programs (6-15 managers in one frame: one multi-item statement, nested statements, withs between many try blocks; plain function and coroutine); every decision path; at every probe in the body and inside every __enter__/__exit__/"
        "__aenter__ (before/after its await)/__aexit__ (before/after its await) the probe walks f_back to the target "
        "frame and compares extract_since(frame).frames[0].contexts and contexts_active_in_frame(frame, None, next_inner) "
        "with the shadow model (entering manager not listed; exiting manager listed last, is_exiting, obj identical). "
        "evaluations = probe observations; distinct_nontrivial = distinct (program, kind, interpreter).")
ASSUMPTIONS = [
    "managers define __exit__/__aexit__ as plain methods with a first positional parameter; sync managers alternate with ones whose `__exit__ = close`; async managers rotate over three implementations: async def methods, `__aexit__` as a plain function returning another method's coroutine, and plain `__aenter__`/`__aexit__` returning the manager itself as a hand-written awaitable iterator (its __next__ is called through the C iterator slot, not resumed inline)",
    "the code that runs below an exit is a method of the manager (first argument = the manager): that argument is the documented way obj of the exiting manager is recovered (lowlevel.contexts_active_in_frame, next_inner); with a foreign awaitable object handed back by __aexit__ the first argument of the frame below is that awaitable - outside the statement's 'inside (or below) __exit__/__aexit__'",
    "AST size bound as stated in coverage.bounds; <= 2 statements per block",
]


def params(tier):
    if tier == "quick":
        return {"grammar": "core", "size": 3, "depth": 3, "deep": "size 5, with-in-loop-in-with + a jump-out leaf (1056 programs), plain function and coroutine, 3.11 and 3.12"}
    return {"grammar": "core", "size": 4, "depth": 3, "full_size": 3, "deep": "size 5, >= 2 with-blocks, plain function and coroutine, 3.11 and 3.12"}


def bounds(tier):
    return params(tier)


def legs(tier):
    from vlib.runner import Leg
    n = 4 if tier == "quick" else 16
    out = [Leg(v, n) for v in ("3.12", "3.11", "3.10", "3.9")]
    if tier != "quick":
        # size-5 programs with >= 2 with-blocks, on the interpreters whose exit-site resolution is bytecode-pattern based
        out += [Leg("3.12", 16, args={"deep": True}, name="3.12-deep"), Leg("3.11", 16, args={"deep": True}, name="3.11-deep")]
    else:
        # quick: the sub-family with a with-block inside a loop inside a with-block and a jump-out leaf (1 056 programs)
        out += [Leg("3.12", 4, args={"deep": "jumpy"}, name="3.12-deep"), Leg("3.11", 4, args={"deep": "jumpy"}, name="3.11-deep")]
    return out


KINDS = ("func", "gen", "coro", "agen")


def make_observer(withs):
    from vlib.ctxobs import ExactObserver
    return ExactObserver(withs, suspended=False, running=True, direct=True)


def space(tier):
    p = params(tier)
    seen = set()
    g = ps.grammar(p["grammar"], ("probe", "probex"))
    for body in ps.programs(g, p["size"], p["depth"]):
        seen.add(body)
        yield body
    if p.get("full_size"):
        g2 = ps.grammar("full", ("probe", "probex"))
        for body in ps.programs(g2, p["full_size"], p["depth"]):
            if body not in seen:
                yield body


def count_withs(x):
    if isinstance(x[0], str):
        n = {"with1": 1, "with1n": 1, "awith1": 1, "awith1n": 1, "with2": 2, "awith2": 2, "mixwith2": 2, "mixwith2r": 2, "with3": 3}.get(x[0], 0)
        return n + sum(count_withs(y) for y in x[1:] if isinstance(y, tuple))
    return sum(count_withs(st) for st in x)


def with_loop_with(body):
    """Is there a with-block inside a loop inside a with-block?"""
    W = set(ps.WITH_KINDS)
    hit = [False]

    def walk(stmt, state):
        k = stmt[0]
        ns = state
        if k in W:
            if state == 2:
                hit[0] = True
            ns = max(state, 1)
        elif k in ("for", "while", "whileelse"):
            if state >= 1:
                ns = 2
        for b in stmt[1:]:
            if isinstance(b, tuple):
                for st in b:
                    walk(st, ns)
    for st in body:
        walk(st, 0)
    return hit[0]


def deep_space():
    """thorough only: size-5 bodies (core grammar, no probe leaves - the probes inside every enter/exit suffice) that
    contain at least two with-blocks: the shapes where one block's exit sequence sits next to another block's code."""
    g = ps.grammar("core")
    for body in ps.gen_body(g, 5, False, 3):
        if count_withs(body) >= 2:
            yield body


def run(ctx):
    from vlib.ctxobs import run_program
    idx = 0
    if ctx.args.get("deep"):
        jumpy = ctx.args.get("deep") == "jumpy"
        for body in deep_space():
            if jumpy and not (with_loop_with(body) and ps.has(body, ("brk", "cont", "retK", "retV"))):
                continue
            for kind in ("func", "coro"):
                if not ps.kind_ok(body, kind):
                    continue
                idx += 1
                if not ctx.mine(idx):
                    continue
                npaths, nobs = run_program(body, kind, ctx, make_observer, ns=ps.NS_MIXED)
                ctx.count("programs")
                ctx.count("deep_programs")
                ctx.count("distinct_nontrivial")
                ctx.count("paths", npaths)
                ctx.count("evaluations", nobs)
                if idx % 9973 == 0:
                    ctx.sample({"kind": kind, "src": ps.render(body, kind)[0]})
        return
    from vlib.props import c01
    for di, (label, kind, src, withs) in enumerate(c01.deep_programs(probe=True)):
        # deeply nested frames (6-15 managers in one frame), probed from the body and from inside every enter / exit
        if not ctx.mine(di):
            continue
        npaths, nobs = run_program(None, kind, ctx, make_observer, case_extra={"deep": label}, src_withs=(src, withs), ns=ps.NS_MIXED)
        ctx.count("deep_nested_programs")
        ctx.count("distinct_nontrivial")
        ctx.count("paths", npaths)
        ctx.count("evaluations", nobs)
    g3 = ps.grammar("core", ("probe", "probex"))
    for body in ps.programs(g3, 3, 3):
        # one re-entrant manager object per kind serves every with-block of the program
        for kind in KINDS:
            if not ps.kind_ok(body, kind) or not ps.has(body, ps.WITH_KINDS):
                continue
            idx += 1
            if not ctx.mine(idx):
                continue
            npaths, nobs = run_program(body, kind, ctx, make_observer, ns=ps.NS_REENTRANT)
            ctx.count("reentrant_programs")
            ctx.count("distinct_nontrivial")
            ctx.count("paths", npaths)
            ctx.count("evaluations", nobs)
    for body in ps.programs(g3, 3, 3):
        # managers whose exit answers an exception by raising a new one (bodies that can raise)
        if not ps.has(body, ("raise",)):
            continue
        for kind in KINDS:
            if not ps.kind_ok(body, kind) or not ps.has(body, ps.WITH_KINDS):
                continue
            idx += 1
            if not ctx.mine(idx):
                continue
            npaths, nobs = run_program(body, kind, ctx, make_observer, ns=ps.NS_RAISING)
            ctx.count("raising_exit_programs")
            ctx.count("distinct_nontrivial")
            ctx.count("paths", npaths)
            ctx.count("evaluations", nobs)
    for body in ps.two_clause_programs(g3, 2 if ctx.tier == "quick" else 3):
        # a with-block in the second except clause of a try whose first clause holds blocks too
        for kind in KINDS:
            if not ps.kind_ok(body, kind):
                continue
            idx += 1
            if not ctx.mine(idx):
                continue
            npaths, nobs = run_program(body, kind, ctx, make_observer, ns=ps.NS_MIXED)
            ctx.count("two_clause_programs")
            ctx.count("distinct_nontrivial")
            ctx.count("paths", npaths)
            ctx.count("evaluations", nobs)
    for body in space(ctx.tier):
        for kind in KINDS:
            if not ps.kind_ok(body, kind):
                continue
            if not ps.has(body, ps.WITH_KINDS):
                ctx.count("trivial_skipped")
                continue
            idx += 1
            if not ctx.mine(idx):
                continue
            if idx % 500 == 0:
                ctx.inflight({"body": repr(body), "kind": kind})
            npaths, nobs = run_program(body, kind, ctx, make_observer, ns=ps.NS_MIXED)
            ctx.count("programs")
            ctx.count("distinct_nontrivial")
            ctx.count("paths", npaths)
            ctx.count("evaluations", nobs)
            if idx % 9973 == 0:
                ctx.sample({"kind": kind, "src": ps.render(body, kind)[0]})


def replay(case):
    from vlib.ctxobs import replay_case
    return replay_case(case, make_observer, ns=ps.NS_MIXED)   # a case that names its namespace ("ns") overrides this
