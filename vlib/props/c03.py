"""C03 - a suspended await/yield-from chain extracts as the path an exception would take.
E2 chainspace; oracle = traceback of a Probe exception thrown into the root.  3.9 compatible."""
import warnings

from vlib import chainspace as cs

LEVEL = "exploration"
RULE = ("Bounded-exhaustive: every sequence of length 0..N over link kinds {await coroutine, await types.coroutine "
        "generator, __await__ returning a coroutine wrapper, __await__ running a delegating generator, asend(None), asend(<an async generator object>), __anext__, "
        "async for, athrow, aclose, `async with` whose __aexit__ awaits the rest (the owning frame is suspended while leaving the block)} x terminal {trap, plain-iterator leaf, falsy future-like leaf that is its own iterator, future-like leaf that speaks the generator protocol (send/throw/close) without being a generator} x outer kind {coroutine, generator-based "
        "coroutine} x {links suspend first themselves, or not}; plus pure yield-from generator chains, plus ten chains through a frame whose context analysis fails (the frames must be complete all the same), plus ten deep chains (60-150 links, plain and mixed); every suspension "
        "point k of each (chain rebuilt and advanced k steps), plus the exhausted state (the root and every coroutine / generator / async generator the chain was made of: no frames once finished or closed, only its own frame when parked at its own yield). Oracle: frames and line numbers of "
        "the traceback of an exception thrown into the root right after extraction. evaluations = (chain, position) "
        "observations; distinct_nontrivial = distinct chain specs with at least one link.")
ASSUMPTIONS = ["the async_generator backport types are not in the alphabet",
               "a position whose thrown Probe does not come back out as Probe has no oracle and is counted, not judged"]


RULE += ' Round 9: terminal kind `adaptor` (C iterator adaptors around a suspended generator; the adaptor is the leaf).'


def legs(tier):
    from vlib.runner import Leg
    n = 2 if tier == "quick" else 8
    return [Leg(v, n) for v in ("3.12", "3.11", "3.10", "3.9")]


def bounds(tier):
    return {"max_links": 3 if tier == "quick" else 4, "max_positions": 14}


def observe(spec, k):
    """Returns (status, problems). status: 'obs', 'exhausted', 'nooracle'."""
    import stackscope
    kinds, end, outer, pre = spec
    ch = cs.build(kinds, end, outer, pre)
    root = ch.root
    try:
        n, done = cs.advance(ch, k)
        problems = []
        if done:
            with warnings.catch_warnings(record=True) as w:
                warnings.simplefilter("always")
                st = stackscope.extract(root)
            if st.frames:
                problems.append("exhausted target has frames %r" % ([f.funcname for f in st.frames],))
            if st.root is not root:
                problems.append("root is not the target")
            # every generator-like object the chain was made of: those that ran to completion have no frames; an async
            # generator that is left parked at a yield of its own has exactly its own frame
            for phase in ("exhausted", "closed"):
                if phase == "closed":
                    ch.close()
                for o in ch.objs:
                    fr = None
                    for attr in ("cr_frame", "gi_frame", "ag_frame"):
                        fr = getattr(o, attr, None) or fr
                    exp_o = [fr] if fr is not None else []
                    with warnings.catch_warnings(record=True) as w:
                        warnings.simplefilter("always")
                        so = stackscope.extract(o)
                    if [f.pyframe for f in so.frames] != exp_o or so.error is not None or so.root is not o or w:
                        problems.append("%s member %r: frames %r expected %r error %r warnings %r" % (
                            phase, o, [f.funcname for f in so.frames], [f.f_code.co_name for f in exp_o], so.error, [str(x.message)[:80] for x in w]))
            return "exhausted", problems
        with warnings.catch_warnings(record=True) as w:
            warnings.simplefilter("always")
            st = stackscope.extract(root)
            st2 = stackscope.extract(root, with_contexts=False)
        got = [(f.pyframe, f.lineno) for f in st.frames]
        if w:
            problems.append("warning %s" % str(w[0].message)[:150])
        if "aexitd" in kinds:
            # the context analysis of the frame that owns the ExiterD block cannot tell whose exit is running and reports
            # that; without contexts there is nothing to report
            if st2.error is not None:
                problems.append("error %r with with_contexts=False" % (st2.error,))
        elif st.error is not None or st2.error is not None:
            problems.append("error %r / %r" % (st.error, st2.error))
        if st.root is not root:
            problems.append("root is not the target")
        if [f.pyframe for f in st2.frames] != [f.pyframe for f in st.frames] or [f.lineno for f in st2.frames] != [f.lineno for f in st.frames]:
            problems.append("with_contexts=False gives different frames")
        if st2.leaf is not st.leaf:
            problems.append("with_contexts=False gives different leaf")
        # where is the chain suspended: at its terminal or at a link's own pre-trap?
        exp, exp_tb = unwind_oracle(root)
        if exp is None:
            return "nooracle", problems
        if exp_tb != exp:
            # CPython <= 3.11 omits from the traceback the frames inward of an athrow()/aclose() delegation
            # although the exception does unwind through them; the unwinding itself is the oracle.
            global TB_DISAGREE
            TB_DISAGREE += 1
        if got != exp:
            problems.append("frames got=%s expected(traceback)=%s" % (
                [(f.f_code.co_name, l) for f, l in got], [(f.f_code.co_name, l) for f, l in exp]))
        # leaf: the plain iterator if that is what ends the chain at this moment, else None
        at_leaf = ch.leaf is not None and _suspended_on_leaf(ch, exp)
        if at_leaf:
            if st.leaf is not ch.leaf:
                problems.append("leaf %r is not the terminal iterator" % (st.leaf,))
        else:
            if st.leaf is not None:
                problems.append("leaf %r but frames tell the whole story" % (st.leaf,))
        return "obs", problems
    finally:
        ch.close()


TB_DISAGREE = 0


def unwind_oracle(root):
    """Throw a Probe into root; return ([(frame, lineno)] outermost first of the frames the exception
    unwound through (observed with sys.setprofile 'return' events), the same list read off the traceback)."""
    import sys
    events = []
    me = sys._getframe(0)

    def prof(frame, event, arg):
        if event == "return" and frame is not me and frame.f_code not in cs.LEAF_CODES:
            events.append((frame, frame.f_lineno))
    exp_tb = None
    ok = False
    sys.setprofile(prof)
    try:
        root.throw(cs.Probe())
    except cs.Probe as ex:
        sys.setprofile(None)
        ok = True
        exp_tb = cs.tb_frames(ex)[1:]
    except BaseException:
        sys.setprofile(None)
    finally:
        sys.setprofile(None)
    if not ok:
        return None, None
    seen = set()
    out = []
    for fr, ln in events:
        if id(fr) in seen:
            continue
        seen.add(id(fr))
        out.append((fr, ln))
    out.reverse()
    # line numbers: the traceback's tb_lineno is authoritative where the frame appears in it
    # (f_lineno seen by a profile function during unwinding is imprecise on 3.9)
    tbl = dict((id(f), l) for f, l in exp_tb)
    out = [(f, tbl.get(id(f), l)) for f, l in out]
    return out, exp_tb


def _suspended_on_leaf(ch, exp):
    # the chain is blocked on the leaf iterator iff the innermost frame's owner awaits / yields from it;
    # decided before the throw by the driver: here we use that the leaf's value 'leaf' is what the last send produced.
    return ch._last == "leaf"


def run(ctx):
    import gc
    N = bounds(ctx.tier)["max_links"]
    idx = 0
    # the unwind oracle listens to every frame exit during the throw: keep the cyclic collector (which may
    # finalise async generators of earlier cases at any moment) out of that window
    gc.disable()
    import itertools
    for spec in itertools.chain(cs.long_specs(), cs.failing_analysis_specs(), cs.specs(N)):
        idx += 1
        if not ctx.mine(idx):
            continue
        if idx % 64 == 0:
            gc.collect()
        if spec[0]:
            ctx.count("distinct_nontrivial")
        ctx.count("chains")
        for k in range(1, bounds(ctx.tier)["max_positions"] + 1):
            status, problems = observe_k(spec, k)
            ctx.count("evaluations")
            ctx.count("pos_" + status)
            if problems:
                ctx.violation({"spec": spec, "k": k}, "; ".join(problems)[:1500], problems[0].split(" ")[0])
            if status == "exhausted":
                break
        if idx % 1009 == 0:
            ctx.sample({"spec": spec, "positions": k})
    ctx.counters["traceback_oracle_differs_from_unwind_oracle"] = TB_DISAGREE


def observe_k(spec, k):
    # wrap advance so that we know what the last send produced
    orig = cs.advance

    def adv(ch, kk):
        n = 0
        ch._last = None
        for _ in range(kk):
            try:
                ch._last = ch.root.send(None)
            except StopIteration:
                return n, True
            except BaseException:
                return n, True
            n += 1
        return n, False
    cs.advance = adv
    try:
        return observe(spec, k)
    finally:
        cs.advance = orig


def replay(case):
    import gc
    gc.collect()
    gc.disable()
    status, problems = observe_k(tuple(case["spec"][:1]) + tuple(case["spec"][1:]), case["k"])
    return [{"detail": p} for p in problems]
