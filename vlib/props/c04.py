"""C04 - running-stack extraction and StackSlice slicing equal slices of the true stack.
All call depths x all splits of the stack into nested greenlets x frame kinds per level x every
(outer, inner, limit).  Oracle: the probe's own f_back / greenlet.parent.gr_frame walk.  3.9 compatible."""
import itertools
import sys

LEVEL = "exploration"
RULE = ("Every call depth 1..N x every subset of levels that start a new nested greenlet (3.12 leg; other interpreters run the "
        "greenlet-free subset) x every assignment of frame kind {plain function, running generator, running coroutine} per level; "
        "the calling code placed in its own module and (depth <= 2) in modules named stackscope_helpers / stackscopex.sub / my.stackscope.glue; from the innermost frame: extract_since(None) must end with the manually walked stack and contain no stackscope frame; "
        "for EVERY outer in {None} + stack, inner in {None} + stack (outer not inward of inner), limit in {None, 1..n+1}: "
        "extract(StackSlice(outer, inner, limit)) must be the corresponding contiguous sub-list with the documented limit anchor; "
        "extract_since(frame) for every frame; extract_until(frame, limit) for every frame and every int limit and every "
        "frame-valued limit reachable by f_back. evaluations = slice checks; distinct_nontrivial = distinct (depth, splits, kinds).")
ASSUMPTIONS = ["invalid anchor pairs (outer inward of inner) are not judged", "frame-valued limits of extract_until are restricted to frames reachable by f_back (same greenlet)"]

try:
    import greenlet
except ImportError:
    greenlet = None


RULE += " Round 9: module variants `wraps:extract_since` / `wraps:extract` (function metadata copied from stackscope's public functions)."


def legs(tier):
    from vlib.runner import Leg
    n = 4 if tier == "quick" else 14
    out = [Leg("3.12", n)]
    for v in ("3.11", "3.10", "3.9"):
        out.append(Leg(v, 1 if tier == "quick" else 2))
    return out


def bounds(tier):
    return {"max_depth": 3 if tier == "quick" else 5}


def true_stack(base):
    out = []
    f = sys._getframe(1)
    if greenlet is None:
        while f is not None:
            out.append(f)
            f = f.f_back
    else:
        g = greenlet.getcurrent()
        while True:
            while f is not None:
                out.append(f)
                f = f.f_back
            g = g.parent
            if g is None:
                break
            f = g.gr_frame
    out.reverse()
    i = out.index(base)
    return out[i:], out


def level(k, splits, base, kinds, res):
    if k == len(kinds):
        return observe(base, res)

    def nxt():
        return level(k + 1, splits, base, kinds, res)

    def call():
        if kinds[k] == "g":
            def gen():
                yield nxt()
            return next(gen())
        if kinds[k] == "c":
            async def co():
                return nxt()
            c = co()
            try:
                c.send(None)
            except StopIteration as ex:
                return ex.value
        return nxt()
    if splits[k] == 2:
        # a new greenlet whose parent is a not-yet-started placeholder greenlet (legal: when the child finishes the
        # placeholder is started with its result); such an ancestor contributes no frames to the running stack
        ph = greenlet.greenlet(lambda *a: a[0] if a else None)
        return greenlet.greenlet(call, parent=ph).switch()
    if splits[k]:
        return greenlet.greenlet(call).switch()
    return call()


def observe(base, res):
    import stackscope
    from stackscope import extract, extract_since, extract_until, StackSlice
    truth, whole = true_stack(base)
    n = len(truth)
    bad = res["bad"]

    class guard(object):
        """an exception escaping one of the extraction functions is a finding about that call, not a harness failure
        (a with-block, not a helper function: nothing may be added to the stack that is being measured)"""

        def __init__(s, tag):
            s.tag = tag

        def __enter__(s):
            return s

        def __exit__(s, et, ev, tb):
            if ev is not None and isinstance(ev, Exception):
                res["cnt"] += 1
                bad.append((s.tag, "raised", None, repr(ev)[:200]))
                return True
            return False

    def chk(tag, st, exp):
        res["cnt"] += 1
        got = [f.pyframe for f in st.frames]
        if got != exp or st.error is not None:
            bad.append((tag, [f.f_code.co_name for f in got], [f.f_code.co_name for f in exp], repr(st.error)[:120]))
    full = extract_since(None, with_contexts=False)
    allf = [f.pyframe for f in full.frames]
    res["cnt"] += 1
    if allf != whole[:-0 or None] and allf != whole:
        pass
    # extract_since(None) == the whole calling-thread stack (through greenlet parents), ending with this frame
    me = sys._getframe(0)
    if allf != whole or allf[-1] is not me:
        bad.append(("full", [f.f_code.co_name for f in allf[-n:]], [f.f_code.co_name for f in whole[-n:]], repr(full.error)[:100]))
    if any((f.f_globals.get("__name__") or "").startswith("stackscope.") for f in allf):
        bad.append(("full contains stackscope's own frames", [f.f_code.co_name for f in allf], None, None))
    if allf != whole:
        return
    for oi in [None] + list(range(n)):
        for ii in [None] + list(range(n)):
            if oi is not None and ii is not None and oi > ii:
                continue
            for lim in [None] + list(range(1, n + 2)):
                o = truth[oi] if oi is not None else None
                i = truth[ii] if ii is not None else None
                lo = allf.index(o) if o is not None else 0
                hi = allf.index(i) if i is not None else len(allf) - 1
                exp = allf[lo:hi + 1]
                if lim is not None and len(exp) > lim:
                    exp = exp[:lim] if (i is None and o is not None) else exp[-lim:]
                with guard(("slice", oi, ii, lim)):
                    chk(("slice", oi, ii, lim), extract(StackSlice(outer=o, inner=i, limit=lim), with_contexts=False), exp)
        if oi is not None:
            with guard(("since", oi)):
                chk(("since", oi), extract_since(truth[oi], with_contexts=False), allf[allf.index(truth[oi]):])
    for ii in range(n):
        for lim in [None] + list(range(1, n + 2)):
            exp = allf[:allf.index(truth[ii]) + 1]
            if lim is not None:
                exp = exp[-lim:]
            with guard(("until", ii, lim)):
                chk(("until", ii, lim), extract_until(truth[ii], limit=lim, with_contexts=False), exp)
        # frame-valued limits: frames reachable from truth[ii] by f_back
        f = truth[ii]
        while f is not None:
            if f in allf:
                exp = allf[allf.index(f):allf.index(truth[ii]) + 1]
                with guard(("until-frame", ii, f.f_code.co_name)):
                    chk(("until-frame", ii, f.f_code.co_name), extract_until(truth[ii], limit=f, with_contexts=False), exp)
            f = f.f_back
    # with_contexts=True must not change the frames
    with guard(("since0+contexts",)):
        st = extract(StackSlice(outer=truth[0]), with_contexts=True)
        chk(("since0+contexts",), st, allf[allf.index(truth[0]):])


def configs(tier):
    b = bounds(tier)
    use_gl = greenlet is not None
    for depth in range(1, b["max_depth"] + 1):
        for splits in itertools.product([0, 1, 2] if (use_gl and depth <= 3) else ([0, 1] if use_gl else [0]), repeat=depth):
            for kinds in itertools.product("fgc", repeat=depth):
                yield (list(splits), "".join(kinds))


_CLONES = {}


def clone_into_module(modname):
    """Copies of this module's stack-building functions whose globals claim to be module `modname`."""
    if modname in _CLONES:
        return _CLONES[modname]
    import types as _t
    g = dict(globals())
    if modname.startswith("wraps:"):
        # the functions live in this module, but their metadata (__module__, __name__, __qualname__, __wrapped__) was
        # copied from one of stackscope's public functions, as functools.wraps(stackscope.extract_since) would do
        import functools
        import stackscope
        for name in ("true_stack", "level", "observe"):
            f = globals()[name]
            g[name] = functools.update_wrapper(_t.FunctionType(f.__code__, g, name, f.__defaults__, f.__closure__),
                                               getattr(stackscope, modname[6:]))
        _CLONES[modname] = g
        return g
    g["__name__"] = modname
    for name in ("true_stack", "level", "observe"):
        f = globals()[name]
        g[name] = _t.FunctionType(f.__code__, g, name, f.__defaults__, f.__closure__)
    _CLONES[modname] = g
    return g


def run_config(splits, kinds, modname=None):
    res = {"cnt": 0, "bad": []}
    lvl = level if modname is None else clone_into_module(modname)["level"]

    def base_fn():
        return lvl(0, splits, sys._getframe(0), kinds, res)
    base_fn()
    return res


def deep_greenlet_stack():
    """A running stack that is deeper than the recursion limit although no greenlet's own recursion is: the child is
    started while its parent is shallow, the parent then recurses deep and switches in, the child recurses deep too.
    Returns problems."""
    if greenlet is None:
        return []
    from stackscope import extract, extract_since, extract_until, StackSlice
    problems = []
    n = int(sys.getrecursionlimit() * 0.7)
    main = greenlet.getcurrent()
    box = {}

    def walk_all():
        out = []
        g = greenlet.getcurrent()
        f = sys._getframe(1)
        while True:
            while f is not None:
                out.append(f)
                f = f.f_back
            g = g.parent
            while g is not None and g.gr_frame is None:
                g = g.parent
            if g is None:
                break
            f = g.gr_frame
        out.reverse()
        return out

    def child_deep(d):
        if d > 0:
            return child_deep(d - 1)
        truth = walk_all()
        me = sys._getframe(0)
        for tag, fn, exp in (
                ("extract_since(None)", lambda: extract_since(None, with_contexts=False), None),
                ("extract(StackSlice())", lambda: extract(StackSlice(), with_contexts=False), None),
                ("extract_since(<frame in the parent greenlet>)", lambda: extract_since(box["pframe"], with_contexts=False), "from_p"),
                ("extract_until(me)", lambda: extract_until(me, with_contexts=False), "until_me")):
            try:
                st = fn()
            except Exception as ex:
                problems.append("%s raised %r" % (tag, ex))
                continue
            got = [f.pyframe for f in st.frames]
            # the lambda / this function's tail: compare up to `me`
            if me in got:
                got = got[:got.index(me) + 1]
            want = truth
            if exp == "from_p":
                want = truth[truth.index(box["pframe"]):]
            if got != want or st.error is not None:
                problems.append("%s: %d frames, the running stack (through greenlet parents) has %d; error %r" % (tag, len(got), len(want), st.error))
        return "done"

    def child():
        main.switch("started")      # started while the parent is shallow
        return child_deep(n)

    def parent_deep(d, g):
        if d > 0:
            return parent_deep(d - 1, g)
        box["pframe"] = sys._getframe(0)
        return g.switch()
    g = greenlet.greenlet(child)
    g.switch()
    parent_deep(n, g)
    return problems


def run(ctx):
    if greenlet is not None and ctx.shard == 0:
        problems = deep_greenlet_stack()
        ctx.count("evaluations", 4)
        ctx.count("deep_greenlet_stack")
        if problems:
            ctx.violation({"deep_greenlets": True}, "; ".join(problems)[:1200], "deep")
    for idx, (splits, kinds) in enumerate(configs(ctx.tier)):
        if not ctx.mine(idx):
            continue
        # the calling code normally lives in this module; for shallow stacks it is also placed in modules whose names
        # merely begin like the library's (only frames of the library itself may be skipped when looking for the caller)
        mods = [None] + (["stackscope_helpers", "stackscopex.sub", "my.stackscope.glue", "wraps:extract_since", "wraps:extract"] if len(kinds) <= 2 else [])
        for modname in mods:
            res = run_config(splits, kinds, modname)
            ctx.count("evaluations", res["cnt"])
            ctx.count("distinct_nontrivial")
            ctx.count("configs")
            for b in res["bad"][:3]:
                ctx.violation({"splits": splits, "kinds": kinds, "module": modname, "tag": [str(x) for x in b[0]] if isinstance(b[0], tuple) else b[0]},
                              "%r: got %r expected %r error %s" % b, str(b[0][0]) if isinstance(b[0], tuple) else "full")
        if idx % 97 == 0:
            ctx.sample({"splits": splits, "kinds": kinds, "checks": res["cnt"]})


def replay(case):
    if case.get("deep_greenlets"):
        return [{"detail": p} for p in deep_greenlet_stack()]
    return _replay_config(case)


def _replay_config(case):
    res = run_config(case["splits"], case["kinds"], case.get("module"))
    return [{"detail": "%r: got %r expected %r error %s" % b} for b in res["bad"][:5]]
