"""C05 - extract never raises: faults contained, reported in .error, outer frames kept.
E6 `faultx`: for every scenario, a fault-free run counts the dynamic invocations of every hook kind;
then one run per (hook kind, k) and per ordered pair of global invocation indices.  3.9 compatible."""
import contextlib
import sys
import threading
import types
import warnings

LEVEL = "fault_enumeration"
RULE = ("For each scenario (async chain with nested generator-based managers and an ExitStack; a coroutine suspended in the __aexit__ of a generator-based manager that has an unwrap_context_generator hook (the glue's nested extract_outermost); blocked thread; custom stack "
        "items incl. a yields_frames source and an inserting elaborate hook; greenlet and Trio nursery tree on the 3.12 leg) the "
        "dynamic invocations of {unwrap_stackitem, FrameIterator step, elaborate_frame, context analysis, elaborate_context, "
        "unwrap_context, unwrap_context_generator} are counted in a fault-free run; an exception is injected at EVERY global "
        "invocation index (single faults) and at EVERY ordered pair of indices (second index enumerated from the run that "
        "already has the first fault); thorough: also EVERY ordered triple in the scenarios with at most 60 hook invocations. Oracle: extract returns; each injected exception is found by identity in .error of exactly "
        "the Stack that was under construction (bare if alone, inside an ExceptionGroup otherwise) and in no other Stack; all "
        "enclosing stacks keep exactly their fault-free frames, the faulted stack keeps the frames outward of the failure; "
        "format(), format_flat(), as_stdlib_summary() succeed. Plus a fixed list of non-stack inputs, and a custom item that never finishes unwrapping while its __repr__ raises (direct, through another item, awaited by a coroutine). "
        "evaluations = injected runs; distinct_nontrivial = distinct (scenario, fault index tuple).")
ASSUMPTIONS = ["faults are exceptions derived from Exception raised in place of the hook call (single faults: as a direct Exception subclass and as subclasses of RuntimeError, IndexError, KeyError, AttributeError, TypeError, ValueError, AssertionError, LookupError, OSError, NotImplementedError (not StopIteration: from an iterator step that is the end of the iteration, not a fault); pairs: Exception subclass)",
               "'Stack under construction' = innermost active extract_child call at injection time"]


RULE += ' Round 9: hostile records (attribute lookups raise KeyError, == and bool() raise) handing over raw frames as frame/tuple/list/StackSlice, direct and awaited.'


def legs(tier):
    from vlib.runner import Leg
    n = 2 if tier == "quick" else 6
    return [Leg(v, n) for v in ("3.12", "3.11", "3.10", "3.9")]


TRIPLE_MAX_INVOCATIONS = 60


def bounds(tier):
    return {"fault_arity": 2 if tier == "quick" else 3, "triples_for_scenarios_with_at_most_invocations": TRIPLE_MAX_INVOCATIONS}


class Injected(Exception):
    pass


class InjectedRuntimeError(RuntimeError):
    """a fault of a type the library itself raises and catches for its own purposes ('no frames')"""


def _typed(base):
    return type("Injected" + base.__name__, (base,), {"__doc__": "an injected fault that `except %s` would catch" % base.__name__})


FAULT_CLASSES = [Injected, InjectedRuntimeError] + [_typed(b) for b in (
    IndexError, KeyError, AttributeError, TypeError, ValueError, AssertionError, LookupError, OSError, NotImplementedError)]
FAULT_BY_BASE = dict((c.__bases__[0].__name__, c) for c in FAULT_CLASSES[1:])


@types.coroutine
def trap():
    yield "t"


class Harness(object):
    """Patches the hook entry points used by extract with counting / injecting wrappers."""

    KINDS = ["unwrap_stackitem", "frameiter", "elaborate_frame", "context_analysis", "elaborate_context", "unwrap_context",
             "unwrap_context_generator"]

    def __init__(self):
        import stackscope
        import stackscope._extract as X
        import stackscope._glue as G
        import stackscope._customization as C
        self.ss = stackscope
        self.X = X
        self.G = G
        self.C = C
        self.orig = {}
        self.inject_at = ()
        self.n = 0
        self.kind_counts = {}
        self.injected = []  # (global index, kind, exception, stack call id, n_elab at that time)
        self.calls = []  # active extract_child ids
        self.stacks = {}  # id -> returned Stack
        self.parents = {}
        self.nelab = {}
        self.next_id = 0
        self.outermost_depth = 0
        self.kstack = []
        self.expect_own_iter = False
        self.fault_cls = Injected
        self.installed = False

    def hook(self, kind, fn):
        H = self

        def wrapper(*a, **kw):
            idx = H.n
            H.n += 1
            H.kind_counts[kind] = H.kind_counts.get(kind, 0) + 1
            cur = H.calls[-1] if H.calls else None
            # invocations made by a nested extract_outermost() (the contextlib glue looking for an exiting manager's
            # frame) belong to the context stage of the frame being built by `cur`
            nested = bool(H.kstack) and H.kstack[-1] == "I"
            if kind == "elaborate_frame" and cur is not None and not nested:
                H.nelab[cur] = H.nelab.get(cur, 0) + 1
            if idx in H.inject_at:
                ex = H.fault_cls("injected at global invocation %d (%s)" % (idx, kind))
                ne = H.nelab.get(cur, 0)
                keep = ne + 1 if nested or kind in ("context_analysis", "elaborate_context", "unwrap_context", "unwrap_context_generator") else ne
                H.injected.append((idx, kind, ex, cur, keep))
                raise ex
            return fn(*a, **kw)
        # keep dispatcher attributes (register/registry/dispatch) reachable
        for attr in ("register", "registry", "dispatch"):
            if hasattr(fn, attr):
                setattr(wrapper, attr, getattr(fn, attr))
        return wrapper

    def install(self):
        X, G, C = self.X, self.G, self.C
        H = self
        self.orig = {
            ("X", "unwrap_stackitem"): X.unwrap_stackitem, ("X", "elaborate_frame"): X.elaborate_frame,
            ("X", "contexts_active_in_frame"): X.contexts_active_in_frame, ("X", "elaborate_context"): X.elaborate_context,
            ("X", "unwrap_context"): X.unwrap_context, ("G", "unwrap_context_generator"): G.unwrap_context_generator,
            ("X", "extract_child"): X.extract_child, ("FI", "__next__"): C.FrameIterator.__next__,
            ("X", "extract_outermost"): X.extract_outermost,
        }
        orig_outermost = X.extract_outermost

        def extract_outermost(*a, **kw):
            H.outermost_depth += 1
            try:
                return orig_outermost(*a, **kw)
            finally:
                H.outermost_depth -= 1
        X.extract_outermost = extract_outermost
        orig_iter = X.extract_iter

        def extract_iter(stackitem, save_errors):
            # an extract_iter() that is not the one an extract_child() call creates for itself is a nested frame
            # search (extract_outermost or its equivalent), not the construction of a Stack
            own = H.expect_own_iter
            H.expect_own_iter = False
            gen = orig_iter(stackitem, save_errors)
            while True:
                if not own:
                    H.kstack.append("I")
                try:
                    fr = next(gen)
                except StopIteration as e:
                    return e.value
                finally:
                    if not own:
                        H.kstack.pop()
                yield fr
        self.orig[("X", "extract_iter")] = orig_iter
        X.extract_iter = extract_iter
        X.unwrap_stackitem = self.hook("unwrap_stackitem", X.unwrap_stackitem)
        X.elaborate_frame = self.hook("elaborate_frame", X.elaborate_frame)
        X.contexts_active_in_frame = self.hook("context_analysis", X.contexts_active_in_frame)
        X.elaborate_context = self.hook("elaborate_context", X.elaborate_context)
        X.unwrap_context = self.hook("unwrap_context", X.unwrap_context)
        G.unwrap_context_generator = self.hook("unwrap_context_generator", G.unwrap_context_generator)
        orig_next = C.FrameIterator.__next__
        fi_wrapped = self.hook("frameiter", lambda it: orig_next(it))
        C.FrameIterator.__next__ = lambda it: fi_wrapped(it)
        orig_child = X.extract_child

        def extract_child(stackitem, *, for_task):
            cid = H.next_id
            H.next_id += 1
            H.parents[cid] = H.calls[-1] if H.calls else None
            H.calls.append(cid)
            H.kstack.append("C")
            H.expect_own_iter = True
            try:
                st = orig_child(stackitem, for_task=for_task)
            finally:
                H.expect_own_iter = False
                H.kstack.pop()
                H.calls.pop()
            H.stacks[cid] = st
            return st
        X.extract_child = extract_child
        self.installed = True

    def uninstall(self):
        X, G, C = self.X, self.G, self.C
        X.unwrap_stackitem = self.orig[("X", "unwrap_stackitem")]
        X.elaborate_frame = self.orig[("X", "elaborate_frame")]
        X.contexts_active_in_frame = self.orig[("X", "contexts_active_in_frame")]
        X.elaborate_context = self.orig[("X", "elaborate_context")]
        X.unwrap_context = self.orig[("X", "unwrap_context")]
        G.unwrap_context_generator = self.orig[("G", "unwrap_context_generator")]
        X.extract_child = self.orig[("X", "extract_child")]
        X.extract_outermost = self.orig[("X", "extract_outermost")]
        X.extract_iter = self.orig[("X", "extract_iter")]
        C.FrameIterator.__next__ = self.orig[("FI", "__next__")]
        self.installed = False

    def run(self, fn, inject_at=()):
        """fn() performs the extraction. Returns dict(result, exc, ...)"""
        self.inject_at = tuple(inject_at)
        self.n = 0
        self.kind_counts = {}
        self.injected = []
        self.calls = []
        self.stacks = {}
        self.parents = {}
        self.nelab = {}
        self.next_id = 0
        self.outermost_depth = 0
        self.kstack = []
        self.expect_own_iter = False
        res = None
        exc = None
        import io
        with warnings.catch_warnings(record=True) as w:
            warnings.simplefilter("always")
            buf = io.StringIO()
            with contextlib.redirect_stderr(buf):
                try:
                    res = fn()
                except BaseException as ex:  # noqa
                    exc = ex
        return dict(res=res, exc=exc, n=self.n, kinds=dict(self.kind_counts), injected=list(self.injected),
                    stacks=dict(self.stacks), parents=dict(self.parents))


def errors_of(st):
    """the exceptions a Stack reports: its error, or the members of its ExceptionGroup (a member that is itself a group -
    the errors of a nested frame lookup, re-raised together - counts through its members)"""
    def flat(e):
        if hasattr(e, "exceptions") and type(e).__name__ in ("ExceptionGroup", "BaseExceptionGroup"):
            out = []
            for x in e.exceptions:
                out += flat(x)
            return out
        return [e]
    return [] if st.error is None else flat(st.error)


def all_stacks(st, seen=None):
    """every Stack reachable from st (inner stacks, child stacks, recursively)"""
    out = [st]
    for f in st.frames:
        for c in f.contexts:
            out += ctx_stacks(c)
    return out


def ctx_stacks(c):
    out = []
    if c.inner_stack is not None:
        out += all_stacks(c.inner_stack)
    for ch in c.children:
        if hasattr(ch, "frames"):
            out += all_stacks(ch)
        else:
            out += ctx_stacks(ch)
    return out


def base_stack_for(base, run, cid):
    """The fault-free Stack that corresponds to call `cid` of the faulted run: matched by the identity of the
    object being extracted (call numbering shifts once an earlier fault has cut some nested extraction short)."""
    r = run["stacks"].get(cid)
    if r is None:
        return None
    if cid == 0:
        return base["stacks"].get(0)
    if r.root is None:
        return None
    cands = [s for s in base["stacks"].values() if s.root is r.root]
    if len(cands) == 1:
        return cands[0]
    return None


def judge(base, run, problems):
    st = run["res"]
    if run["exc"] is not None:
        problems.append("extract raised %r" % (run["exc"],))
        return
    if st is None or not hasattr(st, "frames"):
        problems.append("extract returned %r" % (st,))
        return
    reach = all_stacks(st)
    for (idx, kind, ex, cid, keep) in run["injected"]:
        holders = [s for s in reach if any(e is ex for e in errors_of(s))]
        target = run["stacks"].get(cid)
        if target is None:
            problems.append("fault %d (%s): the extraction under construction (call %r) returned no Stack" % (idx, kind, cid))
            continue
        if not any(e is ex for e in errors_of(target)):
            problems.append("fault %d (%s): injected exception not in .error of the Stack under construction (error=%r)" % (
                idx, kind, target.error))
        else:
            errs = errors_of(target)
            if len(errs) == 1 and target.error is not ex:
                problems.append("fault %d (%s): single error is wrapped: %r" % (idx, kind, target.error))
        extra = [s for s in holders if s is not target]
        if extra:
            problems.append("fault %d (%s): injected exception also reported by %d other Stack(s)" % (idx, kind, len(extra)))
        if target in reach or cid == 0:
            pass
        # frames: enclosing stacks unchanged; the faulted stack keeps its outward frames
        b_t = base_stack_for(base, run, cid)
        if b_t is not None:
            f0 = [f.pyframe for f in b_t.frames]
            f1 = [f.pyframe for f in target.frames]
            if f1[:keep] != f0[:keep]:
                problems.append("fault %d (%s): frames outward of the failure changed: %r vs fault-free %r (keep %d)" % (
                    idx, kind, [f.f_code.co_name for f in f1], [f.f_code.co_name for f in f0], keep))
        anc = run["parents"].get(cid)
        faulted_ancestors = set(c for (_, _, _, c, _) in run["injected"])
        while anc is not None:
            if anc not in faulted_ancestors:
                b_a = base_stack_for(base, run, anc)
                r_a = run["stacks"].get(anc)
                if b_a is not None and r_a is not None:
                    if [f.pyframe for f in r_a.frames] != [f.pyframe for f in b_a.frames]:
                        problems.append("fault %d (%s): frames of an enclosing Stack changed: %r vs %r" % (
                            idx, kind, [f.funcname for f in r_a.frames], [f.funcname for f in b_a.frames]))
            anc = run["parents"].get(anc)
    try:
        "".join(st.format())
        "".join(st.format(ascii_only=True, show_hidden_frames=True))
        "".join(st.format_flat(show_contexts=True))
        if st.frames:
            st.as_stdlib_summary(show_contexts=True, show_hidden_frames=True, capture_locals=True)
            st.as_stdlib_summary()
    except Exception as ex:
        problems.append("formatting/summarising the result raised %r" % (ex,))


# ------------------------------------------------------------------ scenarios
class Scenario(object):
    name = "?"

    def setup(self):
        pass

    def extract(self):
        raise NotImplementedError

    def teardown(self):
        pass


class AsyncChain(Scenario):
    name = "asyncchain"

    def setup(self):
        import stackscope

        @contextlib.contextmanager
        def cm2(tag):
            yield tag

        @contextlib.asynccontextmanager
        async def acm1():
            with cm2("in-acm1") as x:
                yield x

        def cb(*a):
            pass
        # make the generator-manager unwrap hook part of the traversal too
        stackscope.unwrap_context_generator.register(cm2, lambda frame, context: None)

        async def agen():
            with cm2("in-agen"):
                await trap()
                yield 1

        async def B():
            async for x in agen():
                pass

        async def A():
            async with acm1() as v:
                with contextlib.ExitStack() as es:
                    es.enter_context(cm2("es1"))
                    es.callback(cb, 1)
                    es.push(cm2("es2").__exit__)
                    await B()
        self.coro = A()
        self.coro.send(None)

    def extract(self):
        return self.H.ss.extract(self.coro, recurse_child_tasks=True)

    def teardown(self):
        try:
            while True:
                self.coro.send(None)
        except BaseException:
            pass


class ExitingManagers(Scenario):
    """a coroutine suspended inside the __aexit__ of a generator-based manager (whose function has an
    unwrap_context_generator hook): the contextlib glue then looks for the manager's frame with extract_outermost()"""
    name = "exiting"

    def setup(self):
        import stackscope

        @contextlib.contextmanager
        def cmz(tag):
            yield tag

        @contextlib.asynccontextmanager
        async def acmz():
            try:
                yield 1
            finally:
                with cmz("in-finally"):
                    await trap()
        stackscope.unwrap_context_generator.register(acmz, lambda frame, context: None)
        stackscope.unwrap_context_generator.register(cmz, lambda frame, context: None)

        async def A():
            with cmz("outer-A"):
                async with acmz():
                    pass
        self.coro = A()
        self.coro.send(None)

    def extract(self):
        return self.H.ss.extract(self.coro)

    def teardown(self):
        try:
            while True:
                self.coro.send(None)
        except BaseException:
            pass


class ThreadScenario(Scenario):
    name = "thread"

    def setup(self):
        self.ready = threading.Event()
        self.gate = threading.Event()

        @contextlib.contextmanager
        def cm(tag):
            yield tag

        def inner():
            with cm("t-inner"):
                self.ready.set()
                self.gate.wait(60)

        def outer():
            with contextlib.ExitStack() as es:
                es.enter_context(cm("t-es"))
                inner()
        self.t = threading.Thread(target=outer)
        self.t.daemon = True
        self.t.start()
        self.ready.wait(20)
        import time
        # wait until the thread is really parked inside gate.wait(): its innermost frame stops changing
        last = None
        for _ in range(4000):
            fr = sys._current_frames().get(self.t.ident)
            key = (id(fr), fr.f_lasti if fr is not None else None)
            if key == last and fr is not None and fr.f_code.co_name in ("wait", "acquire", "_wait"):
                break
            last = key
            time.sleep(0.0005)

    def extract(self):
        return self.H.ss.extract(self.t)

    def teardown(self):
        self.gate.set()
        self.t.join(20)


class CustomScenario(Scenario):
    name = "custom"
    _types = {}

    def setup(self):
        ss = self.H.ss
        T = CustomScenario._types
        if not T:
            class Item(object):
                def __init__(s, kind, payload):
                    s.kind = kind
                    s.payload = payload

            @ss.unwrap_stackitem.register(Item)
            def _(it):
                if it.kind == "list":
                    return list(it.payload)
                if it.kind == "iter":
                    @ss.yields_frames
                    def gen():
                        for p in it.payload:
                            yield p
                    return gen()
                return None
            T["Item"] = Item
        Item = T["Item"]

        @contextlib.contextmanager
        def cm(tag):
            yield tag

        def g1():
            with cm("g1"):
                yield 1

        def g2():
            yield 2

        def g3():
            with cm("g3a"), cm("g3b"):
                yield 3

        def g4():
            yield 4
        self.gens = [g1(), g2(), g3(), g4()]
        for g in self.gens:
            next(g)
        a, b, c, d = self.gens
        # elaborate hook on g2's code: insert g4 before the rest
        ss.elaborate_frame.register(b.gi_code, lambda frame, nxt: (d, nxt))
        self.item = Item("list", [a, Item("iter", [b.gi_frame, Item("list", [c])]), Item("leaf", None)])

    def extract(self):
        return self.H.ss.extract(self.item)

    def teardown(self):
        for g in self.gens:
            g.close()


class GreenletScenario(Scenario):
    name = "greenlet"

    def setup(self):
        import greenlet

        @contextlib.contextmanager
        def cm(tag):
            yield tag

        def inner():
            with cm("gl-inner"):
                greenlet.getcurrent().parent.switch()

        def outer():
            with cm("gl-outer"):
                inner()
        self.g = greenlet.greenlet(outer)
        self.g.switch()

    def extract(self):
        return self.H.ss.extract(self.g)

    def teardown(self):
        self.g.switch()


def scenarios(py312):
    out = [AsyncChain, ThreadScenario, CustomScenario, ExitingManagers]
    if py312:
        out.append(GreenletScenario)
    return out


def enumerate_faults(H, sc, arity, ctx, pairs_ok):
    """Runs all single (and pair) fault injections for scenario instance sc."""
    base = H.run(sc.extract)
    problems = []
    judge(base, base, problems)
    if base["exc"] is not None or problems or (base["res"] is not None and base["res"].error is not None):
        ctx.violation({"scenario": sc.name, "faults": []}, "fault-free run: %r %r error=%r" % (base["exc"], problems, getattr(base["res"], "error", None)), "faultfree")
        return
    N = base["n"]
    ctx.count("hook_invocations", N)
    for k, v in base["kinds"].items():
        ctx.count("invocations:" + k, v)
    for i in range(N):
        # single faults of the exception types that library code is likely to catch for its own purposes
        for cls in FAULT_CLASSES[1:]:
            H.fault_cls = cls
            try:
                run = H.run(sc.extract, (i,))
            finally:
                H.fault_cls = Injected
            ctx.count("evaluations")
            ctx.count("distinct_nontrivial")
            ctx.count("typed_fault_runs")
            problems = []
            if len(run["injected"]) != 1:
                problems.append("harness: %d faults delivered for index %d" % (len(run["injected"]), i))
            judge(base, run, problems)
            if problems:
                ctx.violation({"scenario": sc.name, "faults": [i], "cls": cls.__bases__[0].__name__, "kind": run["injected"][0][1] if run["injected"] else None},
                              "; ".join(problems)[:1500], "single-%s:" % cls.__bases__[0].__name__ + (run["injected"][0][1] if run["injected"] else "none"))
        run = H.run(sc.extract, (i,))
        ctx.count("evaluations")
        ctx.count("distinct_nontrivial")
        problems = []
        if len(run["injected"]) != 1:
            problems.append("harness: %d faults delivered for index %d" % (len(run["injected"]), i))
        judge(base, run, problems)
        if problems:
            ctx.violation({"scenario": sc.name, "faults": [i], "kind": run["injected"][0][1] if run["injected"] else None},
                          "; ".join(problems)[:1500], "single:" + (run["injected"][0][1] if run["injected"] else "none"))
        if arity >= 2 and pairs_ok:
            for j in range(i + 1, run["n"]):
                run2 = H.run(sc.extract, (i, j))
                ctx.count("evaluations")
                ctx.count("distinct_nontrivial")
                ctx.count("pair_runs")
                problems = []
                if len(run2["injected"]) != 2:
                    problems.append("harness: %d faults delivered for indices %d,%d" % (len(run2["injected"]), i, j))
                judge(base, run2, problems)
                if problems:
                    ctx.violation({"scenario": sc.name, "faults": [i, j], "kinds": [x[1] for x in run2["injected"]]},
                                  "; ".join(problems)[:1500], "pair")
                if arity >= 3 and N <= TRIPLE_MAX_INVOCATIONS:
                    for k in range(j + 1, run2["n"]):
                        run3 = H.run(sc.extract, (i, j, k))
                        ctx.count("evaluations")
                        ctx.count("distinct_nontrivial")
                        ctx.count("triple_runs")
                        problems = []
                        if len(run3["injected"]) != 3:
                            problems.append("harness: %d faults delivered for indices %d,%d,%d" % (len(run3["injected"]), i, j, k))
                        judge(base, run3, problems)
                        if problems:
                            ctx.violation({"scenario": sc.name, "faults": [i, j, k], "kinds": [x[1] for x in run3["injected"]]},
                                          "; ".join(problems)[:1500], "triple")


NONSTACK = ["None", "0", "12345678901234567890", "'text'", "b'bytes'", "[1, 2]", "(1, [2])", "{'a': 1}", "{1, 2}", "object", "int",
            "sys", "len", "lambda: 1", "exhausted_gen()", "closed_gen()", "closed_coro()", "a_frame()", "a_stack()", "sys._getframe()",
            "3.5", "Ellipsis", "NotImplemented", "type", "threading.Thread(target=len)", "StackSlice()", "[None, None]", "iter([])",
            "range(3)", "Exception('x')", "a_context()"]


def nonstack_inputs(ctx):
    import stackscope

    def exhausted_gen():
        def g():
            yield 1
        x = g()
        for _ in x:
            pass
        return x

    def closed_gen():
        def g():
            yield 1
        x = g()
        next(x)
        x.close()
        return x

    def closed_coro():
        async def c():
            pass
        x = c()
        x.close()
        return x

    def a_frame():
        return stackscope.extract_since(None).frames[-1]

    def a_stack():
        return stackscope.extract_since(None)

    def a_context():
        return stackscope.Context(obj=None, is_async=False)
    env = dict(sys=sys, threading=threading, exhausted_gen=exhausted_gen, closed_gen=closed_gen, closed_coro=closed_coro,
               a_frame=a_frame, a_stack=a_stack, StackSlice=stackscope.StackSlice, a_context=a_context)
    for i, expr in enumerate(NONSTACK):
        if not ctx.mine(i):
            continue
        obj = eval(expr, env)
        problems = []
        for kw in ({}, {"with_contexts": False}, {"recurse_child_tasks": True}):
            try:
                with warnings.catch_warnings():
                    warnings.simplefilter("ignore")
                    st = stackscope.extract(obj, **kw)
                if not isinstance(st, stackscope.Stack):
                    problems.append("extract(%s) returned %r" % (expr, st))
                else:
                    "".join(st.format())
                    "".join(st.format_flat())
            except BaseException as ex:  # noqa
                problems.append("extract(%s, %r) raised %r" % (expr, kw, ex))
        ctx.count("evaluations")
        ctx.count("distinct_nontrivial")
        ctx.count("nonstack_inputs")
        if problems:
            ctx.violation({"scenario": "nonstack", "expr": expr}, "; ".join(problems)[:1000], "nonstack")


_HOSTILE = {}


def hostile_items(ctx):
    """Objects that are hostile to the error path itself: a custom stack item whose unwrap hook makes no progress (it
    returns the item) AND whose __repr__ raises - the runaway-unwrapping report mentions the item. Passed directly,
    reached through a healthy item, and awaited by a suspended coroutine (whose frame must be kept)."""
    import stackscope
    if not _HOSTILE:
        class Job(object):
            broken = True

            def __init__(s, inner=None):
                s.inner = inner

            def __repr__(s):
                if Job.broken:
                    raise LookupError("repr of a half-initialised Job")
                return "<Job>"

            def __await__(s):
                return s

            def __iter__(s):
                return s

            def __next__(s):
                return "parked"

        @stackscope.unwrap_stackitem.register(Job)
        def _(job):
            return job.inner if job.inner is not None else job
        _HOSTILE["Job"] = Job
    Job = _HOSTILE["Job"]

    async def worker(job):
        await job
    for label in ("direct", "through-healthy-item", "awaited"):
        if not ctx.mine(hash(label) % 7):
            pass
        Job.broken = True
        job = Job()
        co = None
        if label == "direct":
            target = job
        elif label == "through-healthy-item":
            target = Job(job)
        else:
            co = worker(job)
            co.send(None)
            target = co
        problems = []
        try:
            with warnings.catch_warnings():
                warnings.simplefilter("ignore")
                st = stackscope.extract(target)
        except BaseException as ex:  # noqa
            st = None
            problems.append("extract raised %r" % (ex,))
        Job.broken = False
        if st is not None:
            if st.error is None:
                problems.append("no error reported for an item that never finishes unwrapping")
            if label == "awaited" and [f.pyframe for f in st.frames] != [co.cr_frame]:
                problems.append("frames outward of the failure lost: %r" % ([f.funcname for f in st.frames],))
            try:
                "".join(st.format())
                "".join(st.format_flat())
            except Exception as ex:
                problems.append("formatting the result raised %r" % (ex,))
        if co is not None:
            co.close()
        ctx.count("evaluations")
        ctx.count("distinct_nontrivial")
        ctx.count("hostile_items")
        if problems:
            ctx.violation({"scenario": "hostile", "label": label}, "; ".join(problems)[:1000], "hostile")
    hostile_records(ctx)


def hostile_records(ctx):
    """Stack items whose own protocol methods are hostile although no hook fails: every unknown attribute lookup raises
    KeyError (a dict-backed record), comparison and truth testing raise. Their unwrap hook hands over raw frames in each
    documented form, so the record itself is what the frames are attributed to. extract must return, keep the frames
    that the hook named (and the frame of a coroutine awaiting the record), and stay formattable."""
    import stackscope
    if "Record" not in _HOSTILE:
        class Record(object):
            def __init__(s, form, gen):
                s.__dict__["form"] = form
                s.__dict__["gen"] = gen

            def __getattr__(s, name):
                raise KeyError(name)

            def __eq__(s, other):
                raise ArithmeticError("records do not compare")

            __hash__ = object.__hash__

            def __bool__(s):
                raise ArithmeticError("records have no truth value")

            def __await__(s):
                return s

            def __iter__(s):
                return s

            def __next__(s):
                return "parked"

        @stackscope.unwrap_stackitem.register(Record)
        def _(rec):
            d = rec.__dict__
            fr = d["gen"].gi_frame
            if d["form"] == "frame":
                return fr
            if d["form"] == "tuple":
                return (fr, None)
            if d["form"] == "list":
                return [fr]
            return stackscope.StackSlice(outer=fr, inner=fr)
        _HOSTILE["Record"] = Record
    Record = _HOSTILE["Record"]

    def produce():
        yield 1

    async def worker(rec):
        await rec
    for form in ("frame", "tuple", "list", "slice"):
        for how in ("direct", "awaited"):
            label = "record-%s-%s" % (form, how)
            g = produce()
            next(g)
            rec = Record(form, g)
            co = None
            expect = [g.gi_frame]
            if how == "direct":
                target = rec
            else:
                co = worker(rec)
                co.send(None)
                target = co
                expect = [co.cr_frame, g.gi_frame]
            problems = []
            try:
                with warnings.catch_warnings():
                    warnings.simplefilter("ignore")
                    st = stackscope.extract(target)
            except BaseException as ex:  # noqa
                st = None
                problems.append("extract raised %r" % (ex,))
            if st is not None:
                if [f.pyframe for f in st.frames] != expect:
                    problems.append("frames %r, expected %r (error=%r)" % ([f.funcname for f in st.frames], [f.f_code.co_name for f in expect], st.error))
                try:
                    "".join(st.format())
                    "".join(st.format_flat())
                except Exception as ex:
                    problems.append("formatting the result raised %r" % (ex,))
            if co is not None:
                co.close()
            g.close()
            ctx.count("evaluations")
            ctx.count("distinct_nontrivial")
            ctx.count("hostile_items")
            if problems:
                ctx.violation({"scenario": "hostile", "label": label}, "; ".join(problems)[:1000], "hostile")


def run(ctx):
    arity = bounds(ctx.tier)["fault_arity"]
    py312 = sys.version_info[:2] == (3, 12)
    H = Harness()
    # warm up (glue installation, lazy imports) outside the counted region
    import stackscope
    stackscope.extract(threading.current_thread())
    scs = scenarios(py312)
    if py312:
        scs = scs + ["trio"]
    for si, cls in enumerate(scs):
        if not ctx.mine(si):
            continue
        if cls == "trio":
            run_trio(ctx, H, arity)
            continue
        sc = cls()
        sc.H = H
        sc.setup()
        H.install()
        try:
            enumerate_faults(H, sc, arity, ctx, True)
        finally:
            H.uninstall()
            sc.teardown()
        ctx.sample({"scenario": sc.name})
    nonstack_inputs(ctx)
    if ctx.shard == 0:
        hostile_items(ctx)


def run_trio(ctx, H, arity):
    import trio
    import stackscope

    class TrioSc(Scenario):
        name = "trio"

        def extract(self):
            return stackscope.extract(self.root, recurse_child_tasks=True)

    async def child(n):
        async with trio.open_nursery() as inner:
            inner.start_soon(trio.sleep_forever)
            await trio.sleep_forever()

    box = {}

    async def parent():
        box["task"] = trio.lowlevel.current_task()
        async with trio.open_nursery() as n2:
            n2.start_soon(child, 1)
            n2.start_soon(trio.sleep_forever)
            await trio.sleep_forever()

    async def main():
        async with trio.open_nursery() as nursery:
            nursery.start_soon(parent)
            await trio.testing.wait_all_tasks_blocked()
            sc = TrioSc()
            sc.H = H
            sc.root = box["task"]   # a blocked task whose whole subtree is blocked (the prober itself is not in it)
            H.install()
            try:
                enumerate_faults(H, sc, arity, ctx, arity >= 2)
            finally:
                H.uninstall()
            nursery.cancel_scope.cancel()
    import trio.testing
    trio.run(main)
    ctx.sample({"scenario": "trio"})


def replay(case):
    if case.get("scenario") == "hostile":
        class C0(object):
            shard = 0

            def __init__(s):
                s.v = []

            def mine(s, i):
                return True

            def count(s, *a):
                pass

            def violation(s, c, d, sig):
                if c.get("label") == case.get("label"):
                    s.v.append({"detail": d})
        c0 = C0()
        hostile_items(c0)
        return c0.v
    if case.get("scenario") == "nonstack":
        class C(object):
            def __init__(s):
                s.v = []

            def mine(s, i):
                return NONSTACK[i] == case["expr"]

            def count(s, *a):
                pass

            def violation(s, c, d, sig):
                s.v.append({"detail": d})
        c = C()
        nonstack_inputs(c)
        return c.v
    H = Harness()
    import stackscope
    stackscope.extract(threading.current_thread())
    out = []

    class C2(object):
        def __init__(s):
            s.v = []

        def count(s, *a):
            pass

        def violation(s, c, d, sig):
            if c.get("faults") == case.get("faults"):
                s.v.append({"detail": d})
    c2 = C2()
    if case["scenario"] == "trio":
        orig = enumerate_faults

        def only(H_, sc, arity, ctx, pairs_ok):
            base = H_.run(sc.extract)
            H_.fault_cls = FAULT_BY_BASE.get(case.get("cls"), Injected)
            run = H_.run(sc.extract, tuple(case["faults"]))
            H_.fault_cls = Injected
            problems = []
            judge(base, run, problems)
            if problems:
                c2.v.append({"detail": "; ".join(problems)})
        globals()["enumerate_faults"] = only
        try:
            run_trio(type("X", (), {"sample": lambda s, x: None})(), H, 1)
        finally:
            globals()["enumerate_faults"] = orig
        return c2.v
    cls = [c for c in scenarios(True) if c.name == case["scenario"]][0]
    sc = cls()
    sc.H = H
    sc.setup()
    H.install()
    try:
        base = H.run(sc.extract)
        H.fault_cls = FAULT_BY_BASE.get(case.get("cls"), Injected)
        run = H.run(sc.extract, tuple(case["faults"]))
        H.fault_cls = Injected
        problems = []
        judge(base, run, problems)
        if problems:
            out.append({"detail": "; ".join(problems)})
    finally:
        H.uninstall()
        sc.teardown()
    return out
