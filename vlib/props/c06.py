"""C06 - extraction is a pure observation: no perturbation, repeatable, nothing retained.
Twin runs (observed vs unobserved) over the E1 program space and the E2 chain space for ALL subsets
of observation points, both analysis modes, repetition 1 and 3.  3.9 compatible."""
import gc
import itertools
import sys
import types
import warnings
import weakref

from vlib import progspace as ps
from vlib import chainspace as cs

LEVEL = "exploration"
ROUNDS = 4
RULE = ("Programs: every body of AST size <= S (core grammar + probe leaves) x {coroutine, generator, async generator, plain "
        "function} x every decision path; the points of a path are its suspensions and its probe calls (body, inside every "
        "enter/exit) in order; for EVERY subset of those points (all 2^n when n <= 6, otherwise all subsets of size <= 2 plus the "
        "full set; programs above the size stated in bounds.full_subsets_size: every single point and the full set) x repetition {1,3} x mode {trickery, referents} the program is re-run with extract() at exactly those points "
        "and must produce the same event log, yielded values and outcome as the unobserved twin; consecutive extractions of the "
        "unchanged target must compare equal; afterwards weakrefs to every manager, the target and its frame must be dead and "
        "Release: three targets (generator, generator observed from a nested call, coroutine) abandoned inside their with-block with the cyclic collector switched off, having extracted themselves twice while running (extract(self) / StackSlice from their own frame, both modes): dropping the last reference must finalise them on the spot exactly as in the unobserved twin. The same for eleven hand-written programs (the last two make the extraction record an error whose traceback runs through the suspended target's own frame): four whose frame holds a manager with a staticmethod __exit__ (trickery analysis fails and falls back) three whose `as` targets cannot be described (the analysis gives up on the target on every extraction), and two with a class body / an exec with its own locals mapping between the target frame and the probe; refcounts of value-stack objects unchanged by 4 extract-and-drop rounds. Chains: same for every chain spec of length "
        "<= N and every subset of its positions. A worker dying on a signal is a violation. evaluations = observed re-runs; "
        "distinct_nontrivial = distinct (program, kind, path) / chain specs with >= 1 observation point.")
ASSUMPTIONS = ["n > 6 observation points: subsets of size <= 2 plus the full set (stated cap, fully enumerated below it)"]


def params(tier):
    # programs of AST size <= full_subsets_size get ALL subsets of observation points; larger ones get every
    # single point and the full set
    if tier == "quick":
        return {"size": 3, "depth": 3, "chain_links": 1, "full_subsets_size": 2}
    return {"size": 4, "depth": 3, "chain_links": 2, "full_subsets_size": 2, "deep_kinds": ["coro", "func"]}


def bounds(tier):
    return params(tier)


def legs(tier):
    from vlib.runner import Leg
    n = 4 if tier == "quick" else 12
    out = []
    for v in ("3.12", "3.11", "3.10", "3.9"):
        out.append(Leg(v, n, args={"leg": "prog"}, name=v + "-prog"))
        out.append(Leg(v, 1 if tier == "quick" else 3, args={"leg": "chain"}, name=v + "-chain"))
    return out


def interpreter_state():
    """Interpreter-wide settings that an observation has no business changing."""
    import threading
    return (gc.isenabled(), gc.get_threshold(), sys.getswitchinterval(), sys.gettrace(), sys.getprofile(),
            sys.getrecursionlimit(), threading.gettrace() if hasattr(threading, "gettrace") else None,
            getattr(sys, "tracebacklimit", "unset"), sys.flags.dev_mode)


def restore_state(st):
    if st[0]:
        gc.enable()
    else:
        gc.disable()


class Registry(object):
    def __init__(self):
        self.wr = []


class CountingObserver(object):
    """Numbers observation points (suspensions + probes) in order; extracts at the chosen ones."""
    wants_probe = True

    def __init__(self, chosen, rep, refcount_check=False, liveness=False):
        self.chosen = chosen
        self.rep = rep
        self.seen = {}       # point -> what the extraction at that point reported for the target's own frame
        self.alive = {}      # point -> indices of managers that have exited but are still alive at that point
        self.liveness = liveness
        self.base_alive = None   # the unobserved twin's answer, when known (saves collector runs)
        self.npoints = 0
        self.problems = []
        self.nextract = 0
        self.refcount_check = refcount_check
        self.wr = []

    def _extract(self, fn, arg, what):
        # note: this frame is part of the running stack for probe points, so it must look the same
        # for every repetition (no per-iteration context managers, same line)
        prev = None
        before = interpreter_state()
        with warnings.catch_warnings():
            warnings.simplefilter("ignore")
            for r in range(self.rep):
                st = fn(arg); differ = prev is not None and prev.error is None and st.error is None and not (prev == st); prev = st
                if differ:
                    self.problems.append("%s: two consecutive extractions of an unchanged target differ" % what)
        self.nextract += self.rep
        after = interpreter_state()
        if after != before:
            self.problems.append("%s: extraction changed interpreter-wide state %r -> %r" % (what, before, after))
            restore_state(before)
        return prev

    def _summary(self, st, k):
        for f in st.frames:
            if f.pyframe.f_code.co_name == "prog":
                self.seen[k] = tuple((repr(c.obj), c.is_async, c.is_exiting) for c in f.contexts)
                return

    def _liveness(self, rt, k):
        if not self.liveness:
            return
        wrs = getattr(rt, "exited_wr", ())
        now = tuple(idx for w, idx in wrs if w() is not None)
        ref = None if self.base_alive is None else self.base_alive.get(k, ())
        if now and (ref is None or any(i not in ref for i in now)):
            gc.collect()   # only cyclic garbage needs the collector; anything still alive afterwards is really referenced
            now = tuple(idx for w, idx in wrs if w() is not None)
        self.alive[k] = now

    def _refcounts(self, frame, fn, arg):
        from stackscope import lowlevel
        try:
            objs = list(lowlevel.inspect_frame(frame).stack)
        except Exception:
            return
        # only objects that can plausibly be reachable from the value stack alone: interpreter-wide shared objects
        # (small ints, interned strings, types, functions, ...) change their counts for reasons unrelated to extraction
        shared = (int, str, bytes, float, bool, type(None), type, tuple, frozenset, types.FunctionType, types.BuiltinFunctionType,
                  types.ModuleType, types.CodeType)
        objs = [o for o in objs if o is not None and not isinstance(o, shared)]

        def measure(collect):
            if collect:
                gc.collect()
            b = [sys.getrefcount(o) for o in objs]
            for _ in range(ROUNDS):
                with warnings.catch_warnings():
                    warnings.simplefilter("ignore")
                    st = fn(arg)
                del st
            if collect:
                gc.collect()
            return b, [sys.getrefcount(o) for o in objs]
        before, after = measure(False)
        if before != after:
            # cyclic garbage may be involved: repeat with the collector run before the baseline and after the rounds
            before, after = measure(True)
        if before != after:
            self.problems.append("refcounts of value-stack objects changed after %d extract-and-drop rounds: %r -> %r (%r)" % (
                ROUNDS, before, after, [type(o).__name__ for o in objs]))

    def on_suspend(self, rt, target, tag, n):
        import stackscope
        k = self.npoints
        self.npoints += 1
        if not self.wr:
            self.wr.append(weakref.ref(target))
        if k in self.chosen:
            if self.refcount_check:
                fr = getattr(target, "cr_frame", None) or getattr(target, "gi_frame", None) or getattr(target, "ag_frame", None)
                if fr is not None:
                    self._refcounts(fr, stackscope.extract, target)
            self._summary(self._extract(stackscope.extract, target, "suspended@%d" % k), k)
        self._liveness(rt, k)

    def on_probe(self, rt, where, progframe, caller):
        import stackscope
        k = self.npoints
        self.npoints += 1
        if k in self.chosen:
            if self.refcount_check:
                self._refcounts(progframe, stackscope.extract_since, progframe)
            self._summary(self._extract(stackscope.extract_since, progframe, "running@%d" % k), k)
        self._liveness(rt, k)


def subsets(n, full=True):
    if not full:
        for i in range(n):
            yield frozenset((i,))
        if n > 1:
            yield frozenset(range(n))
        return
    if n <= 6:
        for r in range(1, n + 1):
            for c in itertools.combinations(range(n), r):
                yield frozenset(c)
    else:
        for r in (1, 2):
            for c in itertools.combinations(range(n), r):
                yield frozenset(c)
        yield frozenset(range(n))


def trace_of(rt, outcome):
    return (list(rt.log), list(rt.taken), outcome)


class TrackM(ps.M):
    def __init__(s, rt, i):
        ps.M.__init__(s, rt, i)
        rt.wrs.append(weakref.ref(s))

    def __exit__(s, *exc):
        r = ps.M.__exit__(s, *exc)
        s.rt.exited_wr.append((weakref.ref(s), s.i))
        return r


class TrackAM(ps.AM):
    def __init__(s, rt, i):
        ps.AM.__init__(s, rt, i)
        rt.wrs.append(weakref.ref(s))

    async def __aexit__(s, *exc):
        r = await ps.AM.__aexit__(s, *exc)
        s.rt.exited_wr.append((weakref.ref(s), s.i))
        return r


_BaseRt = ps.Rt


class TRt(_BaseRt):
    def __init__(self, prefix, observer=None):
        _BaseRt.__init__(self, prefix, observer)
        self.wrs = []
        self.exited_wr = []


def run_once(fn, kind, prefix, obs):
    """drive() with tracked managers; returns (trace, weakrefs, npoints)."""
    old = ps.Rt
    ps.Rt = TRt
    gc_off = obs is not None and getattr(obs, "rep", 1) == 3
    if gc_off:
        gc.disable()   # an application may run with the collector off: extraction must leave it off
    try:
        rt, n, outcome = ps.drive(fn, kind, prefix, obs)
    finally:
        ps.Rt = old
        if gc_off:
            gc.enable()
    tr = trace_of(rt, outcome)
    wrs = list(rt.wrs) + list(obs.wr if obs is not None else [])
    rt.observer = None
    del rt
    return tr, wrs


class OddM(object):
    """A manager outside the supported set (its __exit__ is a staticmethod): the trickery analysis of its frame fails
    and falls back with a warning - a third code path that must be just as side-effect free as the other two."""
    is_async = False

    def __init__(s, rt, i):
        s.rt = rt
        s.i = i
        rt.wrs.append(weakref.ref(s))
        OddM.current = s

    def __enter__(s):
        s.rt.log.append(("enter", s.i))
        return s

    @staticmethod
    def __exit__(*exc):
        s = OddM.current
        s.rt.log.append(("exited", s.i, 0))
        s.rt.exited_wr.append((weakref.ref(s), s.i))
        OddM.current = None
        return False


ODD_PROGRAMS = [
    ("gen", "def prog(rt):\n    z = None\n    with OddM(rt, 1):\n        with M(rt, 2) as v2:\n            yield 'body'\n    yield 'after'\n"),
    ("gen", "def prog(rt):\n    z = None\n    with M(rt, 1) as v1:\n        with OddM(rt, 2):\n            yield 'body'\n        yield 'mid'\n    yield 'after'\n"),
    ("coro", "async def prog(rt):\n    z = None\n    with OddM(rt, 1):\n        async with AM(rt, 2) as v2:\n            await trap('body')\n    await trap('after')\n"),
    ("func", "def prog(rt):\n    z = None\n    with OddM(rt, 1):\n        with M(rt, 2):\n            rt.probe('body')\n    rt.probe('after')\n"),
    # `as` targets that stackscope cannot describe (varname None): the analysis takes its give-up path on every extraction
    ("gen", "def prog(rt):\n    z = None\n    slots = [None, None, None]\n    i = 0\n    with M(rt, 1) as slots[i + 1]:\n        yield 'body'\n        with M(rt, 2) as slots[i + 2]:\n            yield 'inner'\n    yield 'after'\n"),
    ("coro", "async def prog(rt):\n    z = None\n    slots = [None, None, None]\n    i = 0\n    async with AM(rt, 1) as slots[i + 1]:\n        await trap('body')\n    await trap('after')\n"),
    ("func", "def prog(rt):\n    z = None\n    slots = {}\n    i = 0\n    with M(rt, 1) as slots[str(i) + 'x']:\n        rt.probe('body')\n    rt.probe('after')\n"),
    # frames whose f_locals IS their live namespace (class body, exec with a separate locals mapping) between the target
    # and the probe: what the code there computes after the extraction must not change
    ("func", "def prog(rt):\n    z = None\n    try:\n        class K:\n            width = 3\n            with M(rt, 1) as v1:\n                rt.probe('body')\n            area = width * 2\n        rt.log.append(('area', K.area))\n    except NameError as ex:\n        rt.log.append(('nameerror', str(ex)))\n    rt.probe('after')\n"),
    ("gen", "def prog(rt):\n    z = None\n    ns = {}\n    try:\n        with M(rt, 1) as v1:\n            exec('a = 5\\nrt.probe(\"body\")\\nb = a + 1\\n', {'rt': rt}, ns)\n            yield 'body'\n        rt.log.append(('ns', sorted(ns.items())))\n    except NameError as ex:\n        rt.log.append(('nameerror', str(ex)))\n    yield 'after'\n"),
    # an extraction that RECORDS an error whose traceback passes through the (suspended) target's own frame: the manager's
    # repr re-raises an exception the target caught earlier; the contextlib glue formats the manager and reports the failure
    ("gen", "def prog(rt):\n    z = None\n    try:\n        raise E()\n    except E as ex:\n        saved = ex\n    with ES() as es:\n        es.enter_context(Hostile(rt, 1, saved))\n        yield 'body'\n        yield 'body2'\n    saved = None\n    yield 'after'\n"),
    ("coro", "async def prog(rt):\n    z = None\n    try:\n        raise E()\n    except E as ex:\n        saved = ex\n    with ES() as es:\n        es.enter_context(Hostile(rt, 1, saved))\n        await trap('body')\n        await trap('body2')\n    saved = None\n    await trap('after')\n"),
]


class Hostile(TrackM):
    """a manager whose repr() re-raises an exception object that was caught - and whose traceback was made - elsewhere"""

    def __init__(s, rt, i, saved):
        TrackM.__init__(s, rt, i)
        s.saved = saved

    def __repr__(s):
        raise s.saved

    def __exit__(s, *exc):
        # the exception object (whose traceback grows with every failed repr) goes away with the block
        s.saved = None
        return TrackM.__exit__(s, *exc)


def compile_tracked(src):
    import contextlib
    ns = dict(ps.NS)
    ns["M"] = TrackM
    ns["AM"] = TrackAM
    ns["OddM"] = OddM
    ns["Hostile"] = Hostile

    class ES(contextlib.ExitStack):
        def __repr__(s):
            return "ES"    # the same text in every run (the harness compares reports across runs)
    ns["ES"] = ES
    exec(compile(src, "<prog>", "exec"), ns)
    return ns["prog"]


def check_path(src, kind, prefix, ctx, case_base, do_refcount, full=True, combos=((True, 1), (True, 3), (False, 1), (False, 3))):
    """Returns number of observed runs."""
    from stackscope import lowlevel
    fn = compile_tracked(src)
    base_obs = CountingObserver(frozenset(), 1, liveness=True)
    base, wrs0 = run_once(fn, kind, prefix, base_obs)
    npts = base_obs.npoints
    base_alive = dict(base_obs.alive)
    alone = {}   # (mode, point) -> summary seen when only that point is probed
    gc.collect()
    alive0 = [w for w in wrs0 if w() is not None]
    if alive0:
        # the harness itself keeps them alive: cannot judge retention on this path
        if ctx is not None:
            ctx.count("retention_unjudgeable_paths")
    nruns = 0
    if npts == 0:
        return 0, base
    if ctx is not None:
        ctx.distinct((src, kind, tuple(prefix)))
    for mode, rep in combos:
        lowlevel.set_trickery_enabled(mode)
        for sub in subsets(npts, full):
            if True:
                is_full = len(sub) == npts
                obs = CountingObserver(sub, rep, refcount_check=(do_refcount and rep == 1 and is_full),
                                       liveness=(rep == 1 and is_full))
                obs.base_alive = base_alive
                got, wrs = run_once(fn, kind, prefix, obs)
                nruns += 1
                problems = list(obs.problems)
                # history independence: what a probe sees must not depend on which other points were probed
                if len(sub) == 1:
                    (k0,) = tuple(sub)
                    alone.setdefault((mode, k0), obs.seen.get(k0))
                else:
                    for k0, summ in obs.seen.items():
                        ref = alone.get((mode, k0))
                        if ref is not None and summ != ref:
                            problems.append("point %d reports %r when other points were probed too, but %r when probed alone" % (k0, summ, ref))
                # retention while the target is still alive: a manager that has exited must be as collectable as in the unobserved twin
                for k0, alive_now in obs.alive.items():
                    extra = [i for i in alive_now if i not in base_alive.get(k0, ())]
                    if extra:
                        problems.append("after earlier extractions, exited managers %r are still alive at point %d (collected there in the unobserved twin)" % (extra, k0))
                if got != base:
                    problems.append("behaviour differs from the unobserved twin: observed %r vs unobserved %r" % (got, base))
                obs.wr = []
                del obs
                if not alive0:
                    gc.collect()
                    alive = [w() for w in wrs if w() is not None]
                    if alive:
                        problems.append("objects still alive after dropping all results: %r" % ([type(a).__name__ for a in alive],))
                    del alive
                if problems and ctx is not None:
                    case = dict(case_base)
                    case.update({"src": src, "kind": kind, "prefix": list(prefix), "subset": sorted(sub), "rep": rep, "mode": mode})
                    ctx.violation(case, "; ".join(problems)[:1500], problems[0].split(":")[0].split(" ")[0])
                elif problems:
                    return problems, base
    lowlevel.set_trickery_enabled(None)
    return nruns, base


def ps_size(x):
    if isinstance(x[0], str):
        extra = {"awith2": 1, "mixwith2": 1, "with2": 1, "mixwith2r": 1, "with3": 2}.get(x[0], 0)
        return 1 + extra + sum(ps_size(y) for y in x[1:] if isinstance(y, tuple))
    return sum(ps_size(st) for st in x)


def run_prog(ctx):
    p = params(ctx.tier)
    g = ps.grammar("core", ("probe",))
    idx = 0
    if ctx.mine(0):
        for kind, src in ODD_PROGRAMS:
            import io
            import contextlib
            with contextlib.redirect_stderr(io.StringIO()):
                nruns, base = check_path(src, kind, (), ctx, {"leg": "prog", "odd": True}, do_refcount=False, full=True)
            ctx.count("odd_manager_programs")
            ctx.count("evaluations", nruns)
    for body in ps.programs(g, p["size"], p["depth"]):
        for kind in ("coro", "gen", "agen", "func"):
            if not ps.kind_ok(body, kind) or not ps.has(body, ps.WITH_KINDS):
                continue
            if ps_size(body) > 3 and kind not in p.get("deep_kinds", ("coro", "gen", "agen", "func")):
                continue   # size-4 programs: coroutine and plain function only (stated in bounds)
            idx += 1
            if not ctx.mine(idx):
                continue
            if idx % 50 == 0:
                ctx.inflight({"body": repr(body), "kind": kind})
            src, withs = ps.render(body, kind)
            fn = ps.compile_prog(src)
            # enumerate decision paths with the plain driver
            stack = [()]
            seen = set()
            while stack:
                prefix = stack.pop()
                rt, n, outcome = ps.drive(fn, kind, prefix, None)
                taken = tuple(rt.taken)
                for i in range(len(prefix), min(len(taken), ps.MAXDEC)):
                    alt = taken[:i] + (1,)
                    if alt not in seen:
                        seen.add(alt)
                        stack.append(alt)
                big = ps_size(body) > p.get("full_subsets_size", 0)
                nruns, base = check_path(src, kind, prefix, ctx, {"leg": "prog"}, do_refcount=True, full=not big,
                                         combos=(((True, 1), (True, 3), (False, 1)) if big else ((True, 1), (True, 3), (False, 1), (False, 3))))
                ctx.count("paths")
                ctx.count("evaluations", nruns)
            ctx.count("programs")
            if idx % 997 == 0:
                ctx.sample({"leg": "prog", "kind": kind, "src": src})


# ------------------------------------------------------------------ chains
def chain_trace(spec, chosen, rep, mode):
    import stackscope
    kinds, end, outer, pre = spec
    ch = cs.build(kinds, end, outer, pre)
    wrs = [weakref.ref(o) for o in ch.objs]
    log = []
    problems = []
    k = 0
    try:
        while True:
            try:
                v = ch.root.send(None)
            except StopIteration as ex:
                v = ex.value
                log.append(("ret", v if isinstance(v, (str, int, type(None))) else type(v).__name__))
                break
            except BaseException as ex:  # noqa
                log.append(("exc", type(ex).__name__))
                break
            log.append(("y", v))
            if k in chosen:
                prev = None
                for r in range(rep):
                    with warnings.catch_warnings():
                        warnings.simplefilter("ignore")
                        st = stackscope.extract(ch.root)
                    if prev is not None and prev.error is None and st.error is None and not (prev == st):
                        problems.append("two consecutive extractions differ at position %d" % k)
                    prev = st
                del prev, st
            k += 1
            if k > 20:
                break
    finally:
        ch.close()
    ch.objs = []
    ch.root = None
    del ch
    return log, k, wrs, problems


def run_chain(ctx):
    from stackscope import lowlevel
    p = params(ctx.tier)
    idx = 0
    for spec in cs.specs(p["chain_links"]):
        idx += 1
        if not ctx.mine(idx):
            continue
        base, n, wrs0, _ = chain_trace(spec, frozenset(), 1, True)
        gc.collect()
        judge = not any(w() is not None for w in wrs0)
        if n == 0:
            continue
        ctx.count("chains")
        ctx.count("distinct_nontrivial")
        for mode in (True, False):
            lowlevel.set_trickery_enabled(mode)
            for sub in subsets(n):
                for rep in (1, 3):
                    got, n2, wrs, problems = chain_trace(spec, sub, rep, mode)
                    ctx.count("evaluations")
                    if got != base:
                        problems.append("chain behaviour differs from unobserved twin: %r vs %r" % (got, base))
                    if judge:
                        gc.collect()
                        alive = [type(w()).__name__ for w in wrs if w() is not None]
                        if alive:
                            problems.append("objects still alive after dropping results: %r" % (alive,))
                    if problems:
                        ctx.violation({"leg": "chain", "spec": spec, "subset": sorted(sub), "rep": rep, "mode": mode},
                                      "; ".join(problems)[:1200], problems[0].split(" ")[0])
        if idx % 499 == 0:
            ctx.sample({"leg": "chain", "spec": spec, "positions": n})
    lowlevel.set_trickery_enabled(None)


# ------------------------------------------------------------------ release by reference counting alone
RELEASE_SRC = {
    "gen": """
def target(rt):
    with Mgr(rt, 'outer'):
        for x in Countdown(rt, 2):
            rt.observe()
            yield x
""",
    "gen_nested_call": """
def helper(rt):
    rt.observe()

def target(rt):
    with Mgr(rt, 'outer'):
        for x in Countdown(rt, 2):
            helper(rt)
            yield x
""",
    "coro": """
async def target(rt):
    async with AMgr(rt, 'outer'):
        for x in Countdown(rt, 2):
            rt.observe()
            await trap(x)
""",
}


def release_case(name, how, mode):
    """A target that is abandoned half-way (inside its with-block, its loop iterator living on the value stack only):
    with the cyclic collector switched off, dropping the last reference must finalise it on the spot - managers exit,
    everything is freed - exactly as in the unobserved twin.  `how`: which extraction the running target performs on
    itself (twice, results compared and dropped).  Returns problems."""
    import stackscope
    from stackscope import lowlevel

    class Rt(object):
        def __init__(s, observed):
            s.log = []
            s.wrs = []
            s.observed = observed
            s.me = None

        def observe(s):
            if not s.observed:
                return
            # both extractions in ONE expression: while the second one runs, the first result sits on the value stack, not
            # in a local (a frame's f_locals snapshot that contains an earlier Stack of that very frame is a cycle of
            # CPython's making, not of stackscope's)
            with warnings.catch_warnings():
                warnings.simplefilter("ignore")
                if how == "extract(self)":
                    pair = (stackscope.extract(s.me), stackscope.extract(s.me))
                elif how == "extract_since(None)":
                    pair = (stackscope.extract_since(None), stackscope.extract_since(None))
                else:
                    pair = (stackscope.extract(stackscope.StackSlice(outer=(getattr(s.me, "gi_frame", None) or getattr(s.me, "cr_frame", None)))),
                            stackscope.extract(stackscope.StackSlice(outer=(getattr(s.me, "gi_frame", None) or getattr(s.me, "cr_frame", None)))))
            if pair[0].error is None and pair[1].error is None and [f.pyframe for f in pair[0].frames] != [f.pyframe for f in pair[1].frames]:
                s.log.append("two extractions differ")
            del pair

    class Mgr(object):
        def __init__(s, rt, nm):
            s.rt, s.nm = rt, nm
            rt.wrs.append(("manager", weakref.ref(s)))

        def __enter__(s):
            s.rt.log.append(("enter", s.nm))
            return s

        def __exit__(s, et, ev, tb):
            s.rt.log.append(("exit", s.nm, et.__name__ if et else None))
            return False

    class AMgr(Mgr):
        async def __aenter__(s):
            return s.__enter__()

        async def __aexit__(s, et, ev, tb):
            return s.__exit__(et, ev, tb)

    class Countdown(object):
        def __init__(s, rt, n):
            s.n = n
            rt.wrs.append(("value-stack iterator", weakref.ref(s)))

        def __iter__(s):
            return s

        def __next__(s):
            if s.n == 0:
                raise StopIteration
            s.n -= 1
            return s.n
    ns = {"Mgr": Mgr, "AMgr": AMgr, "Countdown": Countdown, "trap": ps.trap}
    exec(compile(RELEASE_SRC[name], "<release>", "exec"), ns)

    def one(observed):
        rt = Rt(observed)
        t = ns["target"](rt)
        rt.me = t
        rt.wrs.append(("target", weakref.ref(t)))
        t.send(None)
        rt.me = None
        del t
        rt.log.append("last reference dropped")
        alive = [what for what, w in rt.wrs if w() is not None]
        return rt.log, alive
    lowlevel.set_trickery_enabled(mode)
    gc.collect()
    was = gc.isenabled()
    gc.disable()
    try:
        one(True)       # warm-up (lazy initialisation inside the library)
        log0, alive0 = one(False)
        log1, alive1 = one(True)
    finally:
        if was:
            gc.enable()
        lowlevel.set_trickery_enabled(None)
    problems = []
    if log1 != log0:
        problems.append("release: the observed run finalises differently: %r, unobserved %r" % (log1, log0))
    if alive1 != alive0:
        problems.append("release: still alive right after the last reference was dropped (collector off): %r, unobserved twin %r" % (alive1, alive0))
    return problems


def release_cases():
    for name in sorted(RELEASE_SRC):
        # (not extract_since(None): that also reads the f_locals of the DRIVER's frames, and CPython's cached f_locals
        # snapshot of a driver frame that names the target keeps it alive until that frame's locals are read again)
        for how in ("extract(self)", "StackSlice(outer=own frame)"):
            for mode in (True, False):
                yield {"leg": "release", "name": name, "how": how, "mode": mode}


def run_release(ctx):
    for case in release_cases():
        problems = release_case(case["name"], case["how"], case["mode"])
        ctx.count("evaluations")
        ctx.count("release_cases")
        if problems:
            ctx.violation(case, "; ".join(problems)[:1500], "release")


def run(ctx):
    if ctx.args.get("leg") == "chain":
        run_chain(ctx)
    else:
        if ctx.shard == 0:
            run_release(ctx)
        run_prog(ctx)


def replay(case):
    if case.get("leg") == "release":
        return [{"detail": p} for p in release_case(case["name"], case["how"], case["mode"])]
    return _replay(case)


def _replay(case):
    from stackscope import lowlevel
    if case.get("leg") == "chain":
        s = case["spec"]
        spec = (s[0], s[1], s[2], s[3])
        base, n, wrs0, _ = chain_trace(spec, frozenset(), 1, True)
        lowlevel.set_trickery_enabled(case["mode"])
        got, n2, wrs, problems = chain_trace(spec, frozenset(case["subset"]), case["rep"], case["mode"])
        if got != base:
            problems.append("chain behaviour differs from unobserved twin: %r vs %r" % (got, base))
        gc.collect()
        alive = [type(w()).__name__ for w in wrs if w() is not None]
        if alive:
            problems.append("objects still alive: %r" % (alive,))
        return [{"detail": p} for p in problems]
    class Collect(object):
        def __init__(s):
            s.v = []

        def count(s, *a):
            pass

        def distinct(s, *a):
            pass

        def violation(s, c, detail, sig):
            if c.get("subset") == case.get("subset") and c.get("rep") == case.get("rep") and c.get("mode") == case.get("mode"):
                s.v.append({"detail": detail})
    col = Collect()
    big = len(case.get("subset", [])) > 0
    # re-run the whole path (all subsets) so that the differential oracles have their references
    for full in (True, False):
        check_path(case["src"], case["kind"], tuple(case["prefix"]), col, {"leg": "prog"}, do_refcount=True, full=full)
        if col.v:
            break
    return col.v
