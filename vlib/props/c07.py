"""C07 - thread stacks: exact when the thread is blocked, memory-safe when it is racing.
Blocked leg: exhaustive thread programs (call depth x manager nesting) parked at a gate.
Racing legs: deterministic exploration of the target thread's progress at every line-level scheduling
point inside inspect_frame / unwrap_thread / unwrap_stackslice (deviation bound 1 or 2).
3.9 compatible."""
import itertools
import sys
import threading
import warnings

LEVEL = "model_checking"
RULE = ("Blocked: every thread program of call depth 1..4 with 0..3 `with` managers per level (sum <= 4, plus 10 / 19 / 20 nested statements in one function - a full block stack; the innermost level's managers as nested statements and as one multi-item statement, plus a with inside a for inside a with), parked in Event.wait in the innermost body and inside the __enter__ and the __exit__ of each manager of the innermost level (entering manager not listed, exiting manager listed last with is_exiting); "
        "extract(thread) must equal the thread's real f_back chain (walked independently from sys._current_frames) with exact "
        "contexts on every user frame; not-started and finished threads have no frames. Racing: a target thread runs a program "
        "whose consecutive gates differ in block stack and value stack (nested withs entered/left, loop iterations, call "
        "arguments on the stack); it is parked in a C-level Semaphore.acquire, so its frames are genuinely running. For "
        "lowlevel.inspect_frame(frame), extract(thread) and extract_since(<frame of the other thread>), at EVERY possible thread-switch point (after each call instruction, at each backward jump and function entry - CPython's eval-breaker checks - observed with per-opcode tracing) inside inspect_frame / unwrap_thread / "
        "unwrap_stackslice the target is advanced by k gates (k = 1..to completion; and 'finishes and an impostor thread starts') "
        "- all single deviations (quick) and additionally all pairs {first: 1 or 2 gates} x {second: 1 gate, returned, exited, exited+impostor} at every pair of switch points (thorough). Oracle: no exception escapes, the worker survives, inspect_frame "
        "raises or returns the quiescent reference snapshot of a position the target occupied during the call, every frame "
        "extract reports belongs to the target thread, its contexts match a visited position. state = (scheduling point, "
        "target position); transition = one controller line or one target advance.")
ASSUMPTIONS = [
    "scheduling points are the bytecode positions at which CPython 3.9-3.12 checks the eval breaker (after CALL-family instructions, "
    "at backward jumps and function entry); the interpreter cannot switch threads anywhere else in pure-Python/ctypes attribute code",
    "free-running stress with short switch intervals is sampling and is not part of the deciding step",
]


def legs(tier):
    from vlib.runner import Leg
    out = []
    for v in ("3.12", "3.11", "3.10", "3.9"):
        out.append(Leg(v, 1, args={"leg": "blocked"}, name=v + "-blocked"))
    n = 3 if tier == "quick" else 12
    for v in ("3.12", "3.11"):
        out.append(Leg(v, n, args={"leg": "race_inspect"}, name=v + "-race-inspect"))
        out.append(Leg(v, n, args={"leg": "race_extract"}, name=v + "-race-extract"))
        out.append(Leg(v, max(2, n // 2), args={"leg": "race_since"}, name=v + "-race-since"))
    # The 3.9/3.10 inspector has no validated-snapshot protocol (known finding F11, see known_findings.json): the racing
    # exploration is run there too, single deviations, until it meets the defect; what it meets is reported under
    # the finding's signature, anything with another signature is a violation as usual.
    for v in ("3.10", "3.9"):
        out.append(Leg(v, 1, args={"leg": "race_inspect", "legacy": True}, name=v + "-race-legacy"))
    return out


def crash_sig(interp, case):
    """Signature of a crash, computed from the in-flight case only."""
    if interp in ("3.9", "3.10") and isinstance(case, dict) and str(case.get("leg", "")).startswith("race"):
        return "legacy-inspector-race"
    return "crash"


def bounds(tier):
    return {"deviation_bound": 1 if tier == "quick" else 2, "blocked_depth": 4, "blocked_nest_sum": 4, "target_programs": 2 if tier == "quick" else 3,
            "pairs": "inspect_frame: all targets/starts; extract(thread): targets 0-1, starts 1 and 3; extract_since: single deviations only"}


class M(object):
    def __init__(s, n):
        s.n = n

    def __repr__(s):
        return "M%s" % (s.n,)

    def __enter__(s):
        return s

    def __exit__(s, *a):
        return False


# ------------------------------------------------------------------ blocked leg
def blocked_programs():
    """(nests, form, park): nests[lvl] = number of managers in level lvl's function; form of the LAST level's managers:
    'nested' with statements or one 'items' statement; park = where the thread blocks: in the innermost body, or inside
    the __enter__ / __exit__ of manager j of the last level (the other managers of that frame being active)."""
    for depth in range(1, 5):
        for nests in itertools.product(range(0, 4), repeat=depth):
            if sum(nests) > 4:
                continue
            k = nests[-1]
            forms = ("nested", "items") if k >= 2 else ("nested",)
            for form in forms:
                yield list(nests), form, ["body"]
                for j in range(k):
                    yield list(nests), form, ["enter", j]
                    yield list(nests), form, ["exit", j]
    # block stacks that are (nearly) full: CPython allows 20 statically nested blocks
    for k in (10, 19, 20):
        yield [k], "nested", ["body"]
        yield [k], "nested", ["enter", k - 1]
        yield [k], "nested", ["exit", k - 1]
    # a with inside a for inside a with, parked in the inner manager's __enter__ / body / __exit__
    for park in (["body"], ["enter", 1], ["exit", 1], ["exit", 0]):
        yield [2], "loop", park


def build_blocked(nests, form="nested"):
    lines = []
    withs = {}  # level -> [(line, varname)]
    for lvl, k in enumerate(nests):
        lines.append("def f%d(rt):" % lvl)
        ind = 1
        withs[lvl] = []
        last = lvl + 1 == len(nests)
        if last and form == "items" and k >= 2:
            ln = len(lines) + 1
            items = []
            for j in range(k):
                if j % 2 == 0:
                    items.append("rt.mk(%d, %d) as v%d" % (lvl, j, j))
                    withs[lvl].append((ln, "v%d" % j))
                else:
                    items.append("rt.mk(%d, %d)" % (lvl, j))
                    withs[lvl].append((ln, None))
            lines.append("    with %s:" % ", ".join(items))
            ind += 1
        elif last and form == "loop":
            lines.append("    with rt.mk(%d, 0) as v0:" % lvl)
            withs[lvl].append((len(lines), "v0"))
            lines.append("        for i in range(1):")
            lines.append("            with rt.mk(%d, 1) as v1:" % lvl)
            withs[lvl].append((len(lines), "v1"))
            ind = 4
        else:
            for j in range(k):
                ln = len(lines) + 1
                if j % 2 == 0:
                    lines.append("    " * ind + "with rt.mk(%d, %d) as v%d:" % (lvl, j, j))
                    withs[lvl].append((ln, "v%d" % j))
                else:
                    lines.append("    " * ind + "with rt.mk(%d, %d):" % (lvl, j))
                    withs[lvl].append((ln, None))
                ind += 1
        if lvl + 1 < len(nests):
            lines.append("    " * ind + "f%d(rt)" % (lvl + 1))
        else:
            lines.append("    " * ind + "rt.park_body()")
    return "\n".join(lines) + "\n", withs


class BM(object):
    """manager of the blocked leg: can park the thread inside its __enter__ or __exit__"""

    def __init__(s, rt, n):
        s.rt = rt
        s.n = n
        s.state = "new"

    def __repr__(s):
        return "BM%s" % (s.n,)

    def __enter__(s):
        if s.rt.park_at == ("enter",) + s.n:
            s.rt.park()
        s.state = "active"
        return s

    def __exit__(s, *a):
        s.state = "exiting"
        if s.rt.park_at == ("exit",) + s.n:
            s.rt.park()
        s.state = "done"
        return False


def check_blocked(nests, form="nested", park=("body",)):
    import stackscope
    src, withs = build_blocked(nests, form)
    ns = {}
    exec(compile(src, "<thr>", "exec"), ns)
    lastlvl = len(nests) - 1

    class Rt(object):
        def __init__(s):
            s.mgrs = {}
            s.ready = threading.Event()
            s.gate = threading.Event()
            s.park_at = None if park[0] == "body" else (park[0], lastlvl, park[1])

        def mk(s, lvl, j):
            m = BM(s, (lvl, j))
            s.mgrs.setdefault(lvl, []).append(m)
            return m

        def park_body(s):
            if s.park_at is None:
                s.park()

        def park(s):
            s.ready.set()
            s.gate.wait()
    rt = Rt()
    t = threading.Thread(target=ns["f0"], args=(rt,))
    problems = []
    with warnings.catch_warnings(record=True) as w:
        warnings.simplefilter("always")
        st0 = stackscope.extract(t)
    if st0.frames or st0.error is not None:
        problems.append("not-started thread: %r" % (st0,))
    t.start()
    rt.ready.wait(10)
    try:
        # give the thread time to actually block in gate.wait(): poll until its innermost frame stops changing
        import time
        last = None
        for _ in range(2000):
            fr = sys._current_frames().get(t.ident)
            key = (id(fr), fr.f_lasti if fr is not None else None)
            if key == last and fr is not None and fr.f_code.co_name in ("wait", "acquire", "_wait", "park"):
                break
            last = key
            time.sleep(0.0005)
        with warnings.catch_warnings(record=True) as w:
            warnings.simplefilter("always")
            st = stackscope.extract(t)
        truth = []
        fr = sys._current_frames().get(t.ident)
        while fr is not None:
            truth.append(fr)
            fr = fr.f_back
        truth.reverse()
        if w:
            problems.append("warning %s" % str(w[0].message)[:150])
        if st.error is not None:
            problems.append("error %r" % (st.error,))
        if [f.pyframe for f in st.frames] != truth:
            problems.append("frames %r, real stack %r" % ([f.funcname for f in st.frames], [f.f_code.co_name for f in truth]))
        if st.root is not t:
            problems.append("root")
        for f in st.frames:
            nm = f.funcname
            if nm.startswith("f") and nm[1:].isdigit() and f.pyframe.f_code.co_filename == "<thr>":
                lvl = int(nm[1:])
                exp = [(m, False, m.state == "exiting", withs[lvl][j][1], withs[lvl][j][0]) for j, m in enumerate(rt.mgrs.get(lvl, []))
                       if m.state in ("active", "exiting")]
                got = [(c.obj, c.is_async, c.is_exiting, c.varname, c.start_line) for c in f.contexts]
                if [(id(a), b, c_, d, e) for a, b, c_, d, e in got] != [(id(a), b, c_, d, e) for a, b, c_, d, e in exp]:
                    problems.append("contexts of %s: %r expected %r" % (nm, got, exp))
    finally:
        rt.gate.set()
        t.join()
    with warnings.catch_warnings(record=True) as w:
        warnings.simplefilter("always")
        st2 = stackscope.extract(t)
    if st2.frames or st2.error is not None:
        problems.append("finished thread: %r" % (st2,))
    return problems, src


def run_blocked(ctx):
    for i, (nests, form, park) in enumerate(blocked_programs()):
        problems, src = check_blocked(nests, form, park)
        ctx.count("blocked_programs")
        ctx.count("evaluations")
        ctx.count("traces_validated_against_impl")
        ctx.count("states")
        ctx.count("transitions", 3)
        ctx.count("distinct_nontrivial")
        if problems:
            ctx.violation({"leg": "blocked", "nests": nests, "form": form, "park": park}, "; ".join(problems)[:1500], "blocked")
        if i % 97 == 0:
            ctx.sample({"leg": "blocked", "nests": nests, "form": form, "park": park, "src": src})


# ------------------------------------------------------------------ racing legs
class Gate(object):
    """Target parks here in a C-level acquire; controller releases it n steps at a time."""

    def __init__(self):
        self.go = threading.Semaphore(0)
        self.parked = threading.Semaphore(0)
        self.pos = 0
        self.done = False
        self.returned = False

    def __call__(self, *a):  # called by target
        self.pos += 1
        self.parked.release()
        if not self.go.acquire(timeout=20):
            raise RuntimeError("gate timeout")
        return a[0] if a else None

    def advance(self, n=1):  # called by controller
        for _ in range(n):
            if self.done:
                return
            self.go.release()
            if not self.parked.acquire(timeout=20):
                raise RuntimeError("target did not park")


def ident(*a):
    return a


def target0(g, box):
    box.append(sys._getframe(0))
    g()                                   # pos1: no contexts
    with M(1):
        g()                               # pos2: [M1]
        with M(2) as m2:
            ident(g(), object(), g())     # pos3,4: [M1,M2] with values on the stack
        g()                               # pos5: [M1]
        for i in range(2):
            with M(3 + i):
                g()                       # pos6,7
    g()                                   # pos8


def target1(g, box):
    box.append(sys._getframe(0))
    g()
    try:
        with M(1) as a, M(2) as b:
            g()
            ident(M(9), g(), [g(), 5])
            with M(3):
                g()
            raise KeyError(g())
    except KeyError:
        g()
        with M(4):
            g()
    finally:
        g()


def target2(g, box):
    box.append(sys._getframe(0))

    def inner(n):
        with M(10 + n):
            g()
            if n:
                inner(n - 1)
            g()
    g()
    with M(1):
        inner(2)
        g()


TARGETS = [target0, target1, target2]
EXPECT_CTX = {  # target index -> pos -> repr of active managers in the target's own frame
    0: {1: [], 2: ["M1"], 3: ["M1", "M2"], 4: ["M1", "M2"], 5: ["M1"], 6: ["M1", "M3"], 7: ["M1", "M4"], 8: []},
}


class Runner(object):
    def __init__(self, ti):
        self.ti = ti
        self.refs = None
        self.npos = None

    def start(self, first_advance=1):
        g = Gate()
        box = []
        frames = set()

        def body():
            def prof(frame, event, arg):
                if event == "call":
                    frames.add(frame)
            sys.setprofile(prof)
            try:
                TARGETS[self.ti](g, box)
                g.returned = True
                g()          # the target function has returned; the thread itself stays alive, parked here
            finally:
                sys.setprofile(None)
                g.done = True
                g.parked.release()
        t = threading.Thread(target=body)
        t.daemon = True
        t.start()
        if not g.parked.acquire(timeout=20):
            raise RuntimeError("target did not start")
        if first_advance:
            g.advance(first_advance)
        return g, box, t, frames

    def finish(self, g, t):
        while not g.done:
            g.advance(1)
        t.join(20)

    def snapshot(self, fr):
        from stackscope import lowlevel
        d = lowlevel.inspect_frame(fr)
        import re
        return (tuple((b.handler, b.level) for b in d.blocks), tuple(re.sub(r" at 0x[0-9a-f]+", "", repr(o))[:60] for o in d.stack))

    def reference(self):
        if self.refs is not None:
            return self.refs
        g, box, t, frames = self.start(first_advance=0)
        refs = {}
        while not g.returned:
            refs[g.pos] = self.snapshot(box[0])
            g.advance(1)
        while not g.done:
            g.advance(1)
        t.join(20)
        self.refs = refs
        self.npos = max(refs)
        return refs

    def trace_run(self, codes, schedule, action, start_pos=1):
        """Run action(frame, thread) in this thread with a tracer that, at the k-th line event inside `codes`,
        advances the target by schedule[k] gates (amount 'FIN' = run to completion, 'IMP' = completion + impostor)."""
        g, box, t, frames = self.start(first_advance=start_pos)
        fr = box[0]
        npoints = [0]
        visited = [g.pos]
        imp = []

        def do_dev(amt):
            if amt in ("FIN", "IMP"):
                while not g.done:
                    g.advance(1)
                t.join(20)
                visited.append("done")
                if amt == "IMP":
                    ev = threading.Event()
                    started = threading.Event()

                    def impostor_body():
                        started.set()
                        ev.wait(20)
                    it = threading.Thread(target=impostor_body)
                    it.daemon = True
                    it.start()
                    started.wait(20)
                    imp.append((it, ev))
            elif amt == "RET":
                while not g.returned and not g.done:
                    g.advance(1)
                visited.append("returned")
            else:
                g.advance(amt)
                visited.append("done" if g.done else ("returned" if g.returned else g.pos))

        import dis
        om = dis.opmap
        CALLS = set(om[n] for n in ("CALL", "CALL_FUNCTION_EX", "CALL_KW", "CALL_FUNCTION", "CALL_METHOD", "CALL_FUNCTION_KW") if n in om)
        BACK = set(om[n] for n in ("JUMP_BACKWARD", "JUMP_ABSOLUTE", "RESUME", "JUMP_BACKWARD_NO_INTERRUPT") if n in om)
        BACK.discard(om.get("JUMP_BACKWARD_NO_INTERRUPT"))
        prev_op = {}
        labels = self.labels = []

        def point(frame):
            k = npoints[0]
            npoints[0] += 1
            labels.append((frame.f_code.co_name, frame.f_lineno))
            amt = schedule.get(k)
            if amt:
                do_dev(amt)

        def local(frame, event, arg):
            # Scheduling points are the places where CPython can actually hand the GIL to another thread:
            # right after a call instruction returns, and at backward jumps / function entry (eval-breaker checks).
            if event == "opcode":
                code = frame.f_code.co_code
                op = code[frame.f_lasti]
                po = prev_op.get(id(frame))
                if po in CALLS or op in BACK:
                    point(frame)
                prev_op[id(frame)] = op
            elif event == "return":
                prev_op.pop(id(frame), None)
            return local

        files = getattr(self, "files", ())

        def tracer(frame, event, arg):
            # every function defined in the inspector's own module counts (a helper called between a validity check and
            # the raw read it guards is a thread-switch point too: CPython checks the eval breaker on function entry)
            if frame.f_code in codes or frame.f_code.co_filename in files:
                frame.f_trace_opcodes = True
                frame.f_trace_lines = False
                point(frame)   # function entry is an eval-breaker check (RESUME): a thread switch can happen here
                return local
            return None
        res = None
        exc = None
        with warnings.catch_warnings(record=True) as w:
            warnings.simplefilter("always")
            import io
            import contextlib
            buf = io.StringIO()
            with contextlib.redirect_stderr(buf):
                sys.settrace(tracer)
                try:
                    res = action(fr, t)
                except BaseException as ex:  # noqa
                    exc = ex
                finally:
                    sys.settrace(None)
        impostor_ident_reused = bool(imp) and imp[0][0].ident == t.ident
        impostor_frames = []
        if imp:
            f = sys._current_frames().get(imp[0][0].ident)
            while f is not None:
                impostor_frames.append(f)
                f = f.f_back
        for it, ev in imp:
            ev.set()
            it.join(20)
        self.finish(g, t)
        return dict(res=res, exc=exc, warnings=list(w), visited=visited, npoints=npoints[0], frames=frames, thread=t,
                    target_frame=fr, impostor_reused=impostor_ident_reused, impostor_frames=impostor_frames)


def trace_codes(which):
    import stackscope
    import stackscope._glue as G
    from stackscope import lowlevel
    import stackscope._lowlevel as LL
    # make sure the lazily selected implementation of inspect_frame is in place
    def _g():
        yield 1
    x = _g()
    next(x)
    lowlevel.inspect_frame(x.gi_frame)
    stackscope.extract(threading.current_thread())
    impl = LL.inspect_frame
    codes = set([impl.__code__])
    trace_codes.files = set([impl.__code__.co_filename])
    if which == "extract":
        reg = stackscope.unwrap_stackitem.registry
        ut = reg[threading.Thread]
        codes.add(ut.__code__)
        us = G.unwrap_stackslice.__wrapped__
        codes.add(us.__code__)
        for c in us.__code__.co_consts:
            if hasattr(c, "co_code"):
                codes.add(c)
    return codes


def deviations(npoints, npos, bound, with_imp):
    amts = list(range(1, npos)) + ["RET", "FIN"] + (["IMP"] if with_imp else [])
    margin = 6
    for k in range(npoints + margin):
        for a in amts:
            yield {k: a}
    if bound >= 2:
        # pairs: a small step first (1 or 2 gates), then any kind of second deviation
        second = [1, "RET", "FIN"] + (["IMP"] if with_imp else [])
        for k1 in range(npoints + margin):
            for k2 in range(k1 + 1, npoints + margin):
                for a1 in (1, 2):
                    if a1 >= npos:
                        continue
                    for a2 in second:
                        yield {k1: a1, k2: a2}


def check_inspect(R, refs, sched, start_pos):
    out = R.trace_run(R.codes, sched, lambda fr, t: R.snapshot(fr), start_pos)
    problems = []
    if out["exc"] is not None:
        return "rejected:" + type(out["exc"]).__name__, problems, out
    res = out["res"]
    ok = [p for p in out["visited"] if p not in ("done", "returned") and refs.get(p) == res]
    if not ok and res == ((), ()) and ("done" in out["visited"] or "returned" in out["visited"]):
        ok = ["finished"]  # a frame that has finished has no blocks and no stack
    if not ok:
        problems.append("inspect_frame returned a snapshot %r that matches no position the target occupied during the call (visited %r)" % (
            res, out["visited"]))
    return "consistent", problems, out


def check_since(R, refs, sched, start_pos):
    return check_extract(R, refs, sched, start_pos, since=True)


def check_extract(R, refs, sched, start_pos, since=False):
    import stackscope
    if since:
        # extract_since(<frame running on the other thread>): unwrap_stackslice searches the other threads' stacks
        out = R.trace_run(R.codes, sched, lambda fr, t: stackscope.extract_since(fr), start_pos)
    else:
        out = R.trace_run(R.codes, sched, lambda fr, t: stackscope.extract(t), start_pos)
    problems = []
    if out["exc"] is not None:
        problems.append("extract(thread) raised %r" % (out["exc"],))
        return "raised", problems, out
    st = out["res"]
    tf = out["target_frame"]
    allowed = out["frames"]
    for f in st.frames:
        if f.pyframe is tf:
            continue
        if f.pyframe in out["impostor_frames"]:
            problems.append("extract(thread) reported a frame of the impostor thread that reused the ident: %s" % f.funcname)
        elif f.pyframe not in allowed:
            # frames created before profiling started: threading bootstrap
            if f.pyframe.f_code.co_filename.endswith(("threading.py", "_weakrefset.py")):
                continue  # thread start-up / tear-down code of the standard library running on the target thread
            if f.pyframe.f_code.co_name in ("_bootstrap", "_bootstrap_inner", "run", "body", "prof"):
                # bootstrap frames predate profiling; `prof` is the harness's own profile callback, which runs on the
                # target thread (it may still be handling the c_call event of the gate's acquire when we look)
                continue
            problems.append("frame %s (%s) does not belong to the target thread" % (f.funcname, f.filename))
    outcome = "frames=%d" % len(st.frames)
    exp = EXPECT_CTX.get(R.ti)
    if exp is not None:
        for f in st.frames:
            if f.pyframe is tf and not out["warnings"]:
                got = [repr(c.obj) for c in f.contexts]
                okp = [p for p in out["visited"] if p not in ("done", "returned") and exp.get(p) == got]
                if not okp and got != []:
                    problems.append("contexts %r of the target frame match no visited position %r" % (got, out["visited"]))
    return outcome, problems, out


def run_race(ctx, which):
    b = dict(bounds(ctx.tier))
    legacy = bool(ctx.args.get("legacy"))
    vsig = "legacy-inspector-race" if legacy else which
    if legacy:
        b["deviation_bound"] = 1
        b["target_programs"] = 1
    idx = 0
    outcomes = {}
    for ti in range(b["target_programs"]):
        R = Runner(ti)
        R.codes = trace_codes("extract" if which in ("race_extract", "race_since") else "inspect")
        R.files = trace_codes.files
        refs = R.reference()
        npos = R.npos
        checker = {"race_extract": check_extract, "race_since": check_since}.get(which, check_inspect)
        for start_pos in ((1, 3) if ctx.tier == "quick" else (1, 3, 5)):
            if start_pos >= npos:
                continue
            # fault-free run: count points
            outcome, problems, out = checker(R, refs, {}, start_pos)
            if problems:
                ctx.violation({"leg": which, "target": ti, "start": start_pos, "schedule": {}}, "; ".join(problems)[:1200], vsig)
            npoints = out["npoints"]
            ctx.count("scheduling_points", npoints)
            # pairs of deviations: for inspect_frame everywhere; for extract(thread) on the first two targets from start
            # positions 1 and 3; extract_since stays at single deviations (bounds stated in coverage.bounds)
            dbound = b["deviation_bound"]
            if dbound >= 2 and (which == "race_since" or (which == "race_extract" and (ti >= 2 or start_pos not in (1, 3)))):
                dbound = 1
            for sched in deviations(npoints, npos - start_pos, dbound, which in ("race_extract", "race_since")):
                idx += 1
                if not ctx.mine(idx):
                    continue
                if True:
                    ctx.inflight({"leg": which, "target": ti, "start": start_pos, "schedule": dict((str(k), v) for k, v in sched.items())})
                outcome, problems, out = checker(R, refs, sched, start_pos)
                outcomes[outcome] = outcomes.get(outcome, 0) + 1
                ctx.count("schedules")
                ctx.count("evaluations")
                ctx.count("traces_validated_against_impl")
                ctx.count("transitions", out["npoints"] + len(out["visited"]))
                ctx.count("states", out["npoints"])
                if out.get("impostor_reused"):
                    ctx.count("impostor_ident_reused")
                if problems:
                    ctx.violation({"leg": which, "target": ti, "start": start_pos, "schedule": dict((str(k), v) for k, v in sched.items())},
                                  "; ".join(problems)[:1200], vsig)
        ctx.sample({"leg": which, "target": TARGETS[ti].__name__, "positions": npos, "reference": dict((str(k), v) for k, v in list(refs.items())[:3])})
    for k, v in outcomes.items():
        ctx.count("outcome:" + k, v)
    ctx.count("distinct_nontrivial", len(outcomes) + ctx.counters.get("schedules", 0))


def run(ctx):
    leg = ctx.args.get("leg")
    if leg == "blocked":
        run_blocked(ctx)
    else:
        run_race(ctx, leg)


def replay(case):
    if case.get("leg") == "blocked":
        problems, src = check_blocked(case["nests"], case.get("form", "nested"), case.get("park", ["body"]))
        return [{"detail": p} for p in problems]
    which = case["leg"]
    R = Runner(case["target"])
    R.codes = trace_codes("extract" if which in ("race_extract", "race_since") else "inspect")
    R.files = trace_codes.files
    refs = R.reference()
    sched = dict((int(k), v) for k, v in case["schedule"].items())
    checker = {"race_extract": check_extract, "race_since": check_since}.get(which, check_inspect)
    outcome, problems, out = checker(R, refs, sched, case["start"])
    return [{"detail": p} for p in problems]
