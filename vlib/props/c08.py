"""C08 - Context.start_line is the with line, varname the real `as` target.
Dynamic leg: exhaustive product {with, async with} x layout x item count x target form, run on the
real interpreter and inspected while suspended in the body.  Static leg: every with item of every
standard-library module compiled by the running interpreter (finite corpus, enumerated completely).
3.9 compatible."""
import ast
import itertools
import os
import sys
import sysconfig
import types
import warnings

LEVEL = "exploration"
RULE = ("Dynamic: every combination of {with, async with} x layout {one line, one line shifted by a comment line (equal bytecode, different line table), expression spread over lines, "
        "parenthesised items} x 1..N items x target form (31 forms: local/global/closure names, attributes, subscripts by "
        "constant/name/attribute, nested, positional calls of global/local/method callables, tuple/list/nested/starred "
        "unpacking, plus unsupported: walrus, arithmetic subscripts, keyword calls, slices), suspended inside the body; "
        "start_line must be the with-keyword line and varname None / ast-equal to the target / (unsupported targets only) a "
        "local bound to the manager; supported forms must be rendered. Static: analyze_with_blocks on every code object of "
        "every stdlib module vs the ast (each reported block must match a with item at that line with that is_async and a "
        "correct or absent target; supported targets must be rendered). evaluations = contexts checked; "
        "distinct_nontrivial = distinct (kind, layout, targets) cases plus distinct stdlib with items matched.")
ASSUMPTIONS = [
    "supported target set as listed in the property; forms outside it may be dropped (None) but never wrong",
    "static leg: with statements in code the compiler eliminates are counted as 'ast_items_without_block', not failures",
]


RULE += " Round 9: each one/gap case analyses its line-shifted twin first, releases it, and compiles the case proper until its code object lands on the twin's address (counters twin_address_*)."


def legs(tier):
    from vlib.runner import Leg
    out = []
    for v in ("3.12", "3.11", "3.10", "3.9"):
        out.append(Leg(v, 2 if tier == "quick" else 4, args={"leg": "dynamic"}, name=v + "-dyn"))
        out.append(Leg(v, 2 if tier == "quick" else 4, args={"leg": "static"}, name=v + "-static"))
    return out


def bounds(tier):
    return {"max_items": 2 if tier == "quick" else 3, "stdlib_modules": "top-level + one package level" if tier == "quick" else "all"}


@types.coroutine
def trap():
    yield 1


class NSO(object):
    pass


class M(object):
    def __init__(s, val=None):
        s.val = val

    def __enter__(s):
        return s.val

    def __exit__(s, *a):
        pass

    async def __aenter__(s):
        return s.val

    async def __aexit__(s, *a):
        await trap()


TARGETS = [  # (target text, value expr, supported: True must render / False,None may drop)
    ("a", "1", True), ("ns.x", "1", True), ("ns.sub.x", "1", True), ("d['k']", "1", True), ("d[k]", "1", True),
    ("d['s'][k]", "1", True), ("lst[0]", "1", True), ("lst[-1]", "1", None), ("(a, b)", "(1, 2)", True),
    ("[a, b]", "(1, 2)", True), ("(a, (b, c))", "(1, (2, 3))", True), ("(a, *b)", "(1, 2, 3)", True),
    ("(*a, b)", "(1, 2, 3)", True), ("(a, *b, c)", "(1, 2, 3, 4)", True), ("(a,)", "(1,)", True),
    ("(ns.x, d['k'])", "(1, 2)", True), ("f(1).x", "1", True), ("f(k, 2).x", "1", True), ("d.get('s')[k]", "1", True),
    ("ns.sub.lst[0]", "1", True), ("g", "1", True), ("cv", "1", True), ("gf(1).x", "1", True), ("ns.meth(k).x", "1", True),
    ("lst[0:1]", "[1]", None), ("lst[cv:]", "[1]", None),
    ("d[k + 'x']", "1", False), ("f(a=1).x", "1", False), ("d[(w := 'k')]", "1", False), ("lst[0:2:1]", "[1, 2]", None),
    ("d[1, 2]", "1", None), ("d[ns.kk]", "1", None), ("d[lst[0]]", "1", None), ("(a, ns.x, *d['k'])", "(1, 2, 3)", True),
    ("", "1", None),  # no `as` clause at all
    # locals that are bound on some paths only (the compiler cannot prove them bound: LOAD_FAST_CHECK on 3.12)
    ("mb.x", "1", True), ("md[k]", "1", True), ("mf(1).x", "1", True), ("(mb.x, md['k'])", "(1, 2)", True),
]
LAYOUTS = ["one", "gap", "multi", "paren", "big"]


def norm(expr):
    t = ast.parse(expr, mode="eval").body
    return norm_node(t)


class _L2T(ast.NodeTransformer):
    def visit_List(self, n):
        self.generic_visit(n)
        return ast.Tuple(elts=n.elts, ctx=ast.Load())

    def visit_Slice(self, n):
        # x[a:None] and x[a:] denote the same expression
        self.generic_visit(n)
        for fld in ("lower", "upper", "step"):
            v = getattr(n, fld, None)
            if isinstance(v, ast.Constant) and v.value is None:
                setattr(n, fld, None)
        return n


def norm_node(t):
    import copy
    t = copy.deepcopy(t)
    for n in ast.walk(t):
        if hasattr(n, "ctx"):
            n.ctx = ast.Load()
    t = _L2T().visit(t)
    return ast.dump(t)


def build(kind, layout, items):
    kw = "async with" if kind == "a" else "with"
    lines = ["async def prog(ns, d, lst, k, f):", "    global g", "    cv = None", "    def clo(): return cv", "    nothing = None",
             "    if k:", "        mb = ns; md = d; mf = f"]

    def item(v, t):
        return "M(%s) as %s" % (v, t) if t else "M(%s)" % v
    if layout == "big":
        # a large function: more than 256 locals, constants and names before the statement, so that the instructions of
        # the with statement carry EXTENDED_ARG prefixes
        for i in range(0, 280, 14):
            lines.append("    " + "; ".join("q%d = %d.5" % (j, j) for j in range(i, i + 14)))
        lines.append("    " + "; ".join("ns.a%d" % j for j in range(0, 140)))
        lines.append("    " + "; ".join("ns.a%d" % j for j in range(140, 280)))
    if layout in ("one", "gap", "big"):
        if layout == "gap":
            # same statement one line further down (same bytecode, different line table)
            lines.append("    # spacer")
        lines.append("    %s " % kw + ", ".join(item(v, t) for t, v in items) + ":")
        wl = [len(lines)] * len(items)
    elif layout == "multi":
        first = len(lines) + 1
        lines.append("    %s M(" % kw)
        for i, (t, v) in enumerate(items):
            lines.append("        %s" % v)
            lines.append(("    ) as %s" % t if t else "    )") + (", M(" if i + 1 < len(items) else ":"))
        wl = [first] * len(items)
    else:
        first = len(lines) + 1
        lines.append("    %s (" % kw)
        for t, v in items:
            lines.append("        %s," % item(v, t))
        lines.append("    ):")
        wl = [first] * len(items)
    lines.append("        await trap()")
    return "\n".join(lines) + "\n", wl


def dyn_cases(tier):
    maxn = 2 if tier == "quick" else 3
    firsts = ("a", "ns.x", "(a, *b)")
    for kind in "sa":
        for layout in LAYOUTS:
            for nitems in range(1, maxn + 1):
                for combo in itertools.product(range(len(TARGETS)), repeat=nitems):
                    if nitems >= 2 and TARGETS[combo[0]][0] not in firsts:
                        continue
                    if nitems == 3 and TARGETS[combo[1]][0] not in ("ns.x", "d[k]", "f(1).x", "(a, b)"):
                        continue
                    yield {"kind": kind, "layout": layout, "targets": list(combo)}


_LAST_CODE_ID = [None]
_RECYCLED = {True: 0, False: 0}


def check_dyn(case):
    """returns (status, problems, ncontexts)"""
    mark = len(_NS_TO_CLEAR)
    try:
        return _check_dyn(case)
    finally:
        # a function and its globals refer to each other: break that cycle so that the code objects of this case are
        # released here and now (the next case may then be handed their addresses)
        while len(_NS_TO_CLEAR) > mark:
            _NS_TO_CLEAR.pop().clear()


_NS_TO_CLEAR = []


def _check_dyn(case):
    from stackscope import lowlevel
    want_id = None
    if case["layout"] in ("gap", "one") and not case.get("_twin"):
        # self-contained history: the same statement one line higher/lower is analysed first, in this very case (the two
        # code objects have equal bytecode and, on 3.9/3.10, compare equal although their line tables differ); it is gone
        # by the time the case proper is compiled, and the new code object is made to land on the address the twin's
        # had (whatever identifies a function by id() or by its bytecode alone sees "the same" function again)
        twin = dict(case)
        twin["layout"] = "one" if case["layout"] == "gap" else "gap"
        twin["_twin"] = True
        check_dyn(twin)
        want_id = _LAST_CODE_ID[0]
    combo = [TARGETS[i] for i in case["targets"]]
    items = [(t, v) for t, v, s in combo]
    try:
        src, wl = build(case["kind"], case["layout"], items)
        code = compile(src, "<p>", "exec")
    except SyntaxError:
        return "syntax", [], 0
    o = NSO()
    o.sub = NSO()
    o.sub.lst = [0]
    o.kk = "k"
    o.meth = lambda *a: o
    for j in range(280):
        setattr(o, "a%d" % j, j)
    d = {"s": {}, "k": 0}

    def f(*a, **kw):
        return o

    ns = {"M": M, "trap": trap, "gf": f}
    exec(code, ns)
    _NS_TO_CLEAR.append(ns)
    rejects = []
    while want_id is not None and id(ns["prog"].__code__) != want_id and len(rejects) < 40:
        rejects.append((code, ns))
        code = compile(src, "<p>", "exec")
        ns = {"M": M, "trap": trap, "gf": f}
        exec(code, ns)
        _NS_TO_CLEAR.append(ns)
    if want_id is not None:
        _RECYCLED[id(ns["prog"].__code__) == want_id] += 1
    del rejects
    _LAST_CODE_ID[0] = id(ns["prog"].__code__)
    co = ns["prog"](o, d, [0, 0], "k", f)
    try:
        co.send(None)
    except Exception:
        return "norun", [], 0
    with warnings.catch_warnings(record=True) as w:
        warnings.simplefilter("always")
        ctxs = lowlevel.contexts_active_in_frame(co.cr_frame, co)
    localnames = dict(co.cr_frame.f_locals)
    problems = []
    judge_contexts(ctxs, w, items, combo, wl, localnames, problems, "body")
    nctx = len(ctxs)
    # further observations (async with only): suspended inside the __aexit__ of the last item, then of the one before it
    # (the later items have exited by then), ... - each time that context is exiting and must keep ITS line and target
    if case["kind"] == "a" and not problems:
        try:
            for j in range(len(items), 0, -1):
                co.send(None)
                inner = co.cr_await
                nxt = getattr(inner, "cr_frame", None)
                with warnings.catch_warnings(record=True) as w2:
                    warnings.simplefilter("always")
                    ctxs2 = lowlevel.contexts_active_in_frame(co.cr_frame, co, nxt)
                localnames = dict(co.cr_frame.f_locals)
                tag = "exiting" if j == len(items) else "exiting item %d of %d" % (j, len(items))
                if not ctxs2 or not ctxs2[-1].is_exiting:
                    problems.append("%s: last context is not marked exiting: %r" % (tag, ctxs2))
                judge_contexts(ctxs2, w2, items[:j], combo[:j], wl[:j], localnames, problems, tag)
                nctx += len(ctxs2)
        except StopIteration:
            pass
    try:
        while True:
            co.send(None)
    except BaseException:
        pass
    return "run", problems, nctx


def judge_contexts(ctxs, w, items, combo, wl, localnames, problems, tag):
    if w:
        problems.append("%s: warning: %s" % (tag, str(w[0].message)[:160]))
    if len(ctxs) != len(items):
        problems.append("%s: count: %d contexts for %d items" % (tag, len(ctxs), len(items)))
        return
    for c, (t, v, sup), line in zip(ctxs, combo, wl):
        if not t:
            if c.start_line != line:
                problems.append("%s: start_line %r != with line %r (no target)" % (tag, c.start_line, line))
            if c.varname is not None and not (c.varname in localnames and localnames[c.varname] is c.obj and c.obj is not None):
                problems.append("%s: varname %r for an item without `as` (not a local bound to the manager)" % (tag, c.varname))
            continue
        if c.start_line != line:
            problems.append("start_line %r != with line %r (target %s)" % (c.start_line, line, t))
        if c.varname is None:
            if sup is True:
                problems.append("dropped supported target %s" % t)
        else:
            try:
                okv = norm(c.varname) == norm(t)
            except SyntaxError:
                okv = False
            if not okv:
                # only acceptable if target not reconstructible and varname is a local bound to the manager
                if not (sup is not True and c.varname in localnames and localnames[c.varname] is c.obj and c.obj is not None):
                    problems.append("%s: varname %r for target %r" % (tag, c.varname, t))


# ------------------------------------------------------------------ static leg
def supported_load(e):
    if isinstance(e, ast.Name):
        return True
    if isinstance(e, ast.Attribute):
        return supported_load(e.value)
    if isinstance(e, ast.Subscript):
        sl = e.slice
        if sl.__class__.__name__ == "Index":  # 3.8 compat shape
            sl = sl.value
        return supported_load(e.value) and (isinstance(sl, ast.Name) or (isinstance(sl, ast.Constant) and isinstance(sl.value, (str, int)) and not isinstance(sl.value, bool)))
    if isinstance(e, ast.Call):
        if e.keywords:
            return False
        for a in e.args:
            if isinstance(a, ast.Starred):
                return False
            if not (supported_load(a) or (isinstance(a, ast.Constant) and isinstance(a.value, (str, int)) and not isinstance(a.value, bool))):
                return False
        return supported_load(e.func)
    return False


def supported_target(t):
    if isinstance(t, (ast.Tuple, ast.List)):
        return all(supported_target(x.value if isinstance(x, ast.Starred) else x) for x in t.elts)
    if isinstance(t, ast.Name):
        return True
    if isinstance(t, ast.Attribute):
        return supported_load(t.value)
    if isinstance(t, ast.Subscript):
        return supported_load(t)
    return False


def unmangle(varname, target):
    """The compiler mangles private names (__x inside class C is the variable _C__x): the reported
    name is the real variable. Map it back before comparing with the source text."""
    import re
    priv = set()
    for n in ast.walk(target):
        nm = getattr(n, "id", None) or getattr(n, "attr", None)
        if isinstance(nm, str) and nm.startswith("__") and not nm.endswith("__"):
            priv.add(nm)
    for nm in priv:
        varname = re.sub(r"\b_[A-Za-z0-9_]*?" + re.escape(nm) + r"\b", nm, varname)
    return varname


def stdlib_files(tier):
    root = sysconfig.get_paths()["stdlib"]
    out = []
    for dp, dn, fn in os.walk(root):
        rel = os.path.relpath(dp, root)
        parts = [] if rel == "." else rel.split(os.sep)
        if "site-packages" in parts or "__pycache__" in parts or "lib2to3" in parts:
            dn[:] = []
            continue
        if parts and parts[0] in ("test", "idlelib", "tkinter", "turtledemo"):
            if tier == "quick" or parts[0] != "test":
                dn[:] = []
                continue
        if tier == "quick" and len(parts) > 1:
            dn[:] = []
            continue
        for f in sorted(fn):
            if f.endswith(".py"):
                out.append(os.path.join(dp, f))
        dn.sort()
    return sorted(out)


def all_codes(co):
    yield co
    for c in co.co_consts:
        if isinstance(c, types.CodeType):
            for x in all_codes(c):
                yield x


def check_static_file(path):
    """returns (n_blocks_checked, n_ast_items, n_unmatched_ast, problems, matched_keys)"""
    from stackscope import lowlevel
    try:
        with open(path, "rb") as f:
            srcb = f.read()
        tree = ast.parse(srcb, path)
        with warnings.catch_warnings():
            warnings.simplefilter("ignore")
            top = compile(srcb, path, "exec", dont_inherit=True)
    except (SyntaxError, ValueError, RecursionError, MemoryError):
        return 0, 0, 0, [], []
    items = {}  # (line, is_async) -> list of [target node or None, supported, used]
    nitems = 0
    for node in ast.walk(tree):
        if isinstance(node, (ast.With, ast.AsyncWith)):
            for it in node.items:
                nitems += 1
                tgt = it.optional_vars
                items.setdefault((node.lineno, isinstance(node, ast.AsyncWith)), []).append(
                    [tgt, (supported_target(tgt) if tgt is not None else None), False])
    problems = []
    nblocks = 0
    matched = []
    for co in all_codes(top):
        try:
            with warnings.catch_warnings(record=True) as w:
                warnings.simplefilter("always")
                info = lowlevel.analyze_with_blocks(co)
        except Exception as ex:
            problems.append("analyze_with_blocks raised %r on %s:%s" % (ex, co.co_name, co.co_firstlineno))
            continue
        for handler, c in sorted(info.items()):
            nblocks += 1
            cands = items.get((c.start_line, c.is_async))
            if not cands:
                problems.append("block at %s:%s (handler %d) reports start_line=%r is_async=%r: no such with statement there" % (
                    co.co_name, co.co_firstlineno, handler, c.start_line, c.is_async))
                continue
            ok = False
            if c.varname is None:
                # acceptable if some item on that line has no target or an unsupported one ... or supported ones are all
                # rendered by other blocks; we require: exists candidate with (no target) or (not supported)
                for cand in cands:
                    if cand[0] is None or not cand[1]:
                        ok = True
                        cand[2] = True
                        break
                if not ok:
                    problems.append("supported target dropped at %s line %s: targets there %s" % (
                        co.co_name, c.start_line, [ast.dump(x[0])[:80] for x in cands if x[0] is not None]))
                    continue
            else:
                try:
                    nv = norm(c.varname)
                except SyntaxError:
                    nv = None
                for cand in cands:
                    if cand[0] is not None and nv is not None and (norm_node(cand[0]) == nv or norm(unmangle(c.varname, cand[0])) == norm_node(cand[0])):
                        ok = True
                        cand[2] = True
                        break
                if not ok:
                    problems.append("varname %r at %s line %s matches no `as` target there (%s)" % (
                        c.varname, co.co_name, c.start_line, [ast.dump(x[0])[:80] for x in cands if x[0] is not None]))
                    continue
            matched.append((c.start_line, c.is_async, c.varname))
    unmatched = sum(1 for v in items.values() for cand in v if not cand[2])
    return nblocks, nitems, unmatched, problems, matched


def run(ctx):
    if ctx.args.get("leg") == "dynamic":
        idx = 0
        for case in dyn_cases(ctx.tier):
            idx += 1
            if not ctx.mine(idx):
                continue
            status, problems, n = check_dyn(case)
            if status != "run":
                ctx.count("dyn_" + status)
                continue
            ctx.count("dyn_cases")
            ctx.count("distinct_nontrivial")
            ctx.count("evaluations", n)
            if problems:
                case2 = dict(case)
                case2["leg"] = "dynamic"
                case2["target_texts"] = [TARGETS[i][0] for i in case["targets"]]
                ctx.violation(case2, "; ".join(problems)[:1200], problems[0].split(" ")[0])
            if idx % 997 == 0:
                ctx.sample({"leg": "dynamic", "case": case, "targets": [TARGETS[i][0] for i in case["targets"]]})
        ctx.count("twin_address_recycled", _RECYCLED[True])
        ctx.count("twin_address_not_recycled", _RECYCLED[False])
    else:
        files = stdlib_files(ctx.tier)
        for i, path in enumerate(files):
            if not ctx.mine(i):
                continue
            nblocks, nitems, unmatched, problems, matched = check_static_file(path)
            ctx.count("static_files")
            ctx.count("static_blocks", nblocks)
            ctx.count("evaluations", nblocks)
            ctx.count("ast_items", nitems)
            ctx.count("ast_items_without_block", unmatched)
            ctx.count("distinct_nontrivial", len(set(matched)))
            for p in problems[:3]:
                ctx.violation({"leg": "static", "file": path}, p, "static:" + p.split(" ")[0])
            if nblocks and i % 101 == 0:
                ctx.sample({"leg": "static", "file": path, "blocks": nblocks, "first": matched[:2]})


def replay(case):
    if case.get("leg") == "static":
        nblocks, nitems, unmatched, problems, matched = check_static_file(case["file"])
        return [{"detail": p} for p in problems]
    status, problems, n = check_dyn(case)
    return [{"detail": p} for p in problems]
