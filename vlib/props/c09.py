"""C09 - generator-based managers and exit stacks unfold into the exact nested tree.
E5 `treespace`: all manager trees of bounded depth/width over plain managers, generator-based managers
(sync/async, with and without yield from) and (Async)ExitStack populated by every registration sequence;
observed suspended in the body and at every suspension while unwinding.  3.9 compatible."""
import contextlib
import itertools
import sys
import types
import warnings
from contextlib import ExitStack, AsyncExitStack, contextmanager, asynccontextmanager

LEVEL = "exploration"
RULE = ("Every tree of depth <= D whose nodes are plain sync/async managers, @contextmanager / @asynccontextmanager managers with "
        "0..2 nested children (directly or through `yield from`), and ExitStack / AsyncExitStack populated by EVERY sequence of "
        "length <= L over the registration calls {enter_context, push(manager), push(function), push(bound method), callback, "
        "enter_async_context, push_async_exit(manager), push_async_exit(function), push_async_exit(bound method), "
        "push_async_callback} whose manager operands are again nodes; used in `async with`/`with` of a coroutine, observed at the "
        "body suspension and at every suspension during unwinding (async managers suspend in __aexit__), once leaving the blocks "
        "normally and once through an exception raised in the body (generator-based managers are then driven by throw/athrow), each in both context-analysis modes (trickery; set_trickery_enabled(False), where the exiting manager may be listed a second time). Shadow tree from the "
        "program's own event log: inner_stack = the manager generator's frames and their contexts unless exiting (then those "
        "frames are in the main series and inner_stack is None); ExitStack children = registered-and-not-yet-popped callbacks in "
        "order, with obj / is_async / registration method in description; recursion into children. Each observation is repeated with the outermost frame hidden and pruning everything inward of it (an elaborate hook, as customize(hide=True, prune=True) installs): its context tree must be unfolded all the same; and once more while an outer sibling context of each of these frames fails in its elaborate_context hook (one error per frame, everything else unchanged). evaluations = contexts "
        "compared; distinct_nontrivial = distinct (tree, observation point).")
ASSUMPTIONS = ["push(cm) is indistinguishable from enter_context(cm) and push_async_exit(acm) from enter_async_context(acm) (contextlib stores the same bound __exit__)",
               "for bound-method and wrapped-callback registrations obj may be the callable or the object it is bound to / wraps"]


RULE += ' Round 9: 40 trees in which ONE exit stack is registered at several places.'


def legs(tier):
    from vlib.runner import Leg
    n = 3 if tier == "quick" else 10
    return [Leg(v, n) for v in ("3.12", "3.11", "3.10", "3.9")]


def bounds(tier):
    return {"depth": 2, "stack_seq_len": 2 if tier == "quick" else 3, "nested_seq_len": 1 if tier == "quick" else 2}


@types.coroutine
def trap(tag):
    return (yield tag)


class Rt(object):
    def __init__(s):
        s.events = []
        s.nextid = 0


class P(object):
    is_async = False

    def __init__(s, rt):
        s.rt = rt
        s.called = False
        rt.nextid += 1
        s.n = rt.nextid

    def __repr__(s):
        return "P%d" % s.n

    def __enter__(s):
        return s

    def __exit__(s, *a):
        s.called = True
        return False

    def meth(s, *a):
        s.called = True
        return False


class AP(object):
    is_async = True

    def __init__(s, rt):
        s.rt = rt
        s.called = False
        s.exiting = False
        rt.nextid += 1
        s.n = rt.nextid

    def __repr__(s):
        return "AP%d" % s.n

    async def __aenter__(s):
        return s

    async def __aexit__(s, *a):
        s.called = True
        s.exiting = True
        await trap(("aexit", s.n))
        s.exiting = False
        return False

    async def ameth(s, *a):
        s.called = True
        s.exiting = True
        await trap(("ameth", s.n))
        s.exiting = False
        return False


class Fn(object):
    """callable with state (so that 'has it been called' is observable)"""

    def __init__(s, rt, is_async=False):
        s.called = False
        s.is_async = is_async
        rt.nextid += 1
        s.n = rt.nextid
        if is_async:
            async def afn(*a, **k):
                s.called = True
                return False
            s.fn = afn
        else:
            def fn(*a, **k):
                s.called = True
                return False
            s.fn = fn


# generator-based managers with real nested with statements in their frames
@contextmanager
def g0():
    yield "g0"


@contextmanager
def g1(a):
    with a:
        yield "g1"


@contextmanager
def g2(a, b):
    with a as x, b:
        yield "g2"


@contextmanager
def g_never():
    # registered on a stack without being entered: its generator is created but not started; popping it just finishes it
    if False:
        yield "never"


@asynccontextmanager
async def ag_never():
    if False:
        yield "never"


def _inner1(a):
    with a:
        yield "gy1"


@contextmanager
def gy1(a):
    yield from _inner1(a)


@asynccontextmanager
async def ag0():
    yield "ag0"


@asynccontextmanager
async def ag_s1(a):
    with a:
        yield "ag_s1"


@asynccontextmanager
async def ag_a1(a):
    async with a:
        yield "ag_a1"


@asynccontextmanager
async def ag_sa2(a, b):
    with a:
        async with b as y:
            yield "ag_sa2"


class VES(ExitStack):
    def __exit__(self, *a):
        self._verif_exit_called = True
        return ExitStack.__exit__(self, *a)


class VAES(AsyncExitStack):
    async def __aexit__(self, *a):
        self._verif_exit_called = True
        return await AsyncExitStack.__aexit__(self, *a)


class Node(object):
    """shadow description of one manager in the tree"""

    def __init__(self, kind, mgr, kids=(), regs=(), is_async=False):
        self.kind = kind      # 'P','AP','G','GY','AG','ES','AES'
        self.mgr = mgr
        self.kids = list(kids)
        self.regs = list(regs)  # for stacks: list of Reg
        self.is_async = is_async
        self.spec = None


class Reg(object):
    def __init__(self, method, obj_options, is_async, node=None, done=None, equiv=None):
        self.method = method
        self.equiv = equiv or [method]
        self.obj_options = obj_options
        self.is_async = is_async
        self.node = node
        self.done = done  # callable -> bool: has this callback been popped (called)?


def build(spec, rt, nested_len):
    """spec: nested tuple description -> Node (constructs real managers, unentered)."""
    k = spec[0]
    if k == "P":
        return Node("P", P(rt))
    if k == "AP":
        return Node("AP", AP(rt), is_async=True)
    if k == "G":
        kids = [build(s, rt, nested_len) for s in spec[1]]
        fn = {0: g0, 1: g1, 2: g2}[len(kids)]
        return Node("G", fn(*[c.mgr for c in kids]), kids)
    if k == "GY":
        kids = [build(s, rt, nested_len) for s in spec[1]]
        return Node("GY", gy1(kids[0].mgr), kids)
    if k == "AG":
        kids = [build(s, rt, nested_len) for s in spec[1]]
        if len(kids) == 0:
            m = ag0()
        elif len(kids) == 1:
            m = ag_a1(kids[0].mgr) if kids[0].is_async else ag_s1(kids[0].mgr)
        else:
            m = ag_sa2(kids[0].mgr, kids[1].mgr)
        return Node("AG", m, kids, is_async=True)
    if k in ("ES", "AES"):
        n = Node(k, VES() if k == "ES" else VAES(), is_async=(k == "AES"))
        n.regspec = spec[1]
        return n
    raise AssertionError(k)


async def populate(node, rt, nested_len):
    """Perform the registration calls on an (entered) stack node."""
    st = node.mgr
    for r in node.regspec:
        kind = r[0]
        if kind == "enter":
            ch = build(r[1], rt, nested_len)
            st.enter_context(ch.mgr)
            if ch.kind in ("ES",):
                await populate(ch, rt, nested_len)
            node.regs.append(Reg("enter_context", [ch.mgr], False, node=ch, done=done_of(ch), equiv=["enter_context", "push"]))
        elif kind == "pushcm":
            ch = build(r[1], rt, nested_len)
            # push(cm) does not call __enter__; enter it ourselves so that a generator-based cm has a frame
            if ch.kind in ("G", "GY"):
                ch.mgr.__enter__()
            st.push(ch.mgr)
            node.regs.append(Reg("push", [ch.mgr], False, node=ch, done=done_of(ch), equiv=["enter_context", "push"]))
        elif kind == "pushraw":
            m = g_never()
            ch = Node("G", m, [])
            st.push(m)
            node.regs.append(Reg("push", [m], False, node=ch, done=done_of(ch), equiv=["enter_context", "push"]))
        elif kind == "apushraw":
            m = ag_never()
            ch = Node("AG", m, [], is_async=True)
            st.push_async_exit(m)
            node.regs.append(Reg("push_async_exit", [m], True, node=ch, done=done_of(ch), equiv=["enter_async_context", "push_async_exit"]))
        elif kind == "pushfn":
            f = Fn(rt)
            st.push(f.fn)
            node.regs.append(Reg("push", [f.fn], False, done=lambda f=f: f.called))
        elif kind == "pushmeth":
            p = P(rt)
            m = p.meth
            st.push(m)
            node.regs.append(Reg("push", [p, m], False, done=lambda p=p: p.called))
        elif kind == "callback":
            f = Fn(rt)
            st.callback(f.fn, 1, k=2)
            node.regs.append(Reg("callback", [f.fn, "wraps"], False, done=lambda f=f: f.called))
        elif kind == "aenter":
            ch = build(r[1], rt, nested_len)
            await st.enter_async_context(ch.mgr)
            node.regs.append(Reg("enter_async_context", [ch.mgr], True, node=ch, done=done_of(ch), equiv=["enter_async_context", "push_async_exit"]))
        elif kind == "apushcm":
            ch = build(r[1], rt, nested_len)
            if ch.kind == "AG":
                await ch.mgr.__aenter__()
            st.push_async_exit(ch.mgr)
            node.regs.append(Reg("push_async_exit", [ch.mgr], True, node=ch, done=done_of(ch), equiv=["enter_async_context", "push_async_exit"]))
        elif kind == "apushfn":
            f = Fn(rt, is_async=True)
            st.push_async_exit(f.fn)
            node.regs.append(Reg("push_async_exit", [f.fn], True, done=lambda f=f: f.called))
        elif kind == "apushmeth":
            p = AP(rt)
            m = p.ameth
            st.push_async_exit(m)
            node.regs.append(Reg("push_async_exit", [p, m], True, done=lambda p=p: p.called))
        elif kind == "acallback":
            f = Fn(rt, is_async=True)
            st.push_async_callback(f.fn, 3)
            node.regs.append(Reg("push_async_callback", [f.fn, "wraps"], True, done=lambda f=f: f.called))
        else:
            raise AssertionError(kind)


def done_of(node):
    """has this manager's exit been called (i.e. has an enclosing stack popped it)?"""
    m = node.mgr
    if node.kind in ("P", "AP"):
        return lambda: m.called
    if node.kind in ("G", "GY"):
        return lambda: m.gen.gi_frame is None or m.gen.gi_running
    if node.kind == "AG":
        return lambda: m.gen.ag_frame is None or m.gen.ag_running
    if node.kind in ("ES", "AES"):
        return lambda: getattr(m, "_verif_exit_called", False)
    raise AssertionError(node.kind)


def gen_frames(gen):
    out = []
    cur = gen
    while cur is not None:
        fr = getattr(cur, "gi_frame", None) or getattr(cur, "ag_frame", None) or getattr(cur, "cr_frame", None)
        if fr is None:
            break
        out.append(fr)
        cur = getattr(cur, "gi_yieldfrom", None) or getattr(cur, "ag_await", None) or getattr(cur, "cr_await", None)
    return out


REFERENTS = [False]
_HP = {"on": False, "registered": False}


def _hide_and_prune(frame, next_inner):
    if _HP["on"]:
        import stackscope
        frame.hide = True
        return stackscope.PRUNE
    return None


class PoisonError(Exception):
    pass


class Poison(object):
    """an outer sibling context in every body frame; its elaborate_context hook fails while _HP['poison'] is set -
    whatever happens to it, the contexts inward of it in the same frame are unfolded as usual"""

    def __enter__(s):
        return s

    def __exit__(s, *a):
        return False


PO = Poison()


def _poison_hook(mgr, context):
    if _HP.get("poison"):
        raise PoisonError("elaborate_context fails for the outer sibling")


def ctxs_of(frame):
    cs = _ctxs_of(frame)
    return [c for c in cs if c.obj is not PO]


def _ctxs_of(frame):
    """Frame.contexts; in referents mode the manager whose exit call is in progress may be listed twice (once found on
    the value stack, once as the is_exiting entry - C20 allows that one additional entry): the duplicate is dropped."""
    cs = list(frame.contexts)
    if REFERENTS[0] and len(cs) >= 2 and cs[-1].is_exiting and not cs[-2].is_exiting and cs[-2].obj is cs[-1].obj:
        del cs[-2]
    return cs


def compare_ctx(ctx, node, problems, counter, path, exiting=False):
    counter[0] += 1
    if ctx.obj is not node.mgr:
        problems.append("%s: obj %r is not the manager %r" % (path, ctx.obj, node.mgr))
        return
    if ctx.is_async != node.is_async:
        problems.append("%s: is_async %r" % (path, ctx.is_async))
    if ctx.is_exiting != exiting:
        problems.append("%s: is_exiting %r expected %r" % (path, ctx.is_exiting, exiting))
    if node.kind in ("P", "AP"):
        if ctx.inner_stack is not None or ctx.children:
            problems.append("%s: plain manager has inner_stack/children" % path)
    elif node.kind in ("G", "GY", "AG"):
        if exiting:
            if ctx.inner_stack is not None:
                problems.append("%s: exiting generator-based manager has an inner_stack" % path)
            return
        if ctx.inner_stack is None:
            problems.append("%s: generator-based manager has no inner_stack" % path)
            return
        ist = ctx.inner_stack
        if ist.error is not None:
            problems.append("%s: inner_stack error %r" % (path, ist.error))
        exp_frames = gen_frames(node.mgr.gen)
        if [f.pyframe for f in ist.frames] != exp_frames:
            problems.append("%s: inner_stack frames %r, generator's frames %r" % (
                path, [f.funcname for f in ist.frames], [f.f_code.co_name for f in exp_frames]))
            return
        # the kids live in the innermost generator frame
        kid_ctxs = [c for f in ist.frames for c in ctxs_of(f)]
        compare_ctx_list(kid_ctxs, node.kids, problems, counter, path + "/" + node.kind)
    elif node.kind in ("ES", "AES"):
        live = [r for r in node.regs if not r.done()]
        kids = list(ctx.children)
        if len(kids) != len(live):
            problems.append("%s: %d children, %d registered callbacks not yet popped (%r)" % (
                path, len(kids), len(live), [r.method for r in live]))
            return
        for i, (c, r) in enumerate(zip(kids, live)):
            counter[0] += 1
            p2 = "%s/%s[%d]" % (path, node.kind, i)
            if not hasattr(c, "is_async"):
                problems.append("%s: child is not a Context" % p2)
                continue
            ok_obj = any(c.obj is o for o in r.obj_options if not isinstance(o, str))
            if not ok_obj and "wraps" in r.obj_options:
                ok_obj = getattr(c.obj, "__wrapped__", None) is r.obj_options[0]
            if not ok_obj:
                problems.append("%s: obj %r is not the registered %r" % (p2, c.obj, r.obj_options))
            if c.is_async != r.is_async:
                problems.append("%s: is_async %r for %s" % (p2, c.is_async, r.method))
            d = c.description or ""
            if not any(("." + m + "(") in d for m in r.equiv):
                problems.append("%s: description %r does not name the registration method %s" % (p2, d, r.method))
            if r.node is not None:
                compare_ctx(c, r.node, problems, counter, p2, exiting=False)
    else:
        raise AssertionError(node.kind)


def compare_ctx_list(ctxs, nodes, problems, counter, path, exiting_last=False):
    if len(ctxs) != len(nodes):
        problems.append("%s: %d contexts, expected %d (%r)" % (path, len(ctxs), len(nodes), [n.kind for n in nodes]))
        return
    for i, (c, n) in enumerate(zip(ctxs, nodes)):
        compare_ctx(c, n, problems, counter, "%s/%d" % (path, i), exiting=(exiting_last and i == len(nodes) - 1))


# ------------------------------------------------------------------ enumeration
LEAVES = [("P",), ("AP",)]


def sync_nodes(depth):
    yield ("P",)
    if depth >= 1:
        yield ("G", ())
        yield ("G", (("P",),))
        yield ("G", (("P",), ("P",)))
        yield ("GY", (("P",),))
        if depth >= 2:
            yield ("G", (("G", (("P",),)),))
            yield ("G", (("ES", (("enter", ("P",)), ("callback",))),))


def async_nodes(depth):
    yield ("AP",)
    if depth >= 1:
        yield ("AG", ())
        yield ("AG", (("P",),))
        yield ("AG", (("AP",),))
        yield ("AG", (("P",), ("AP",)))
        if depth >= 2:
            yield ("AG", (("G", (("P",),)),))


def reg_kinds(is_async, depth, nested_len):
    out = [("enter", n) for n in sync_nodes(depth)] + [("pushcm", ("P",)), ("pushcm", ("G", (("P",),))), ("pushraw",), ("pushfn",), ("pushmeth",), ("callback",)]
    if nested_len >= 1:
        for seq in itertools.product([("enter", ("P",)), ("callback",), ("pushfn",)], repeat=nested_len):
            out.append(("enter", ("ES", tuple(seq))))
    if is_async:
        out += [("aenter", n) for n in async_nodes(depth)] + [("apushcm", ("AP",)), ("apushcm", ("AG", (("AP",),))), ("apushraw",), ("apushfn",), ("apushmeth",), ("acallback",)]
    return out


def programs(tier):
    b = bounds(tier)
    # roots: one or two nested with statements in the coroutine
    roots = []
    for n in list(sync_nodes(2)) + list(async_nodes(2)):
        roots.append((n,))
    for a in (("P",), ("G", (("P",),)), ("AG", (("AP",),))):
        for bnode in (("AP",), ("G", (("P",),)), ("AG", (("P",), ("AP",)))):
            roots.append((a, bnode))
    for r in roots:
        yield r
    for is_async in (False, True):
        kinds = reg_kinds(is_async, 1, b["nested_seq_len"])
        for L in range(0, b["stack_seq_len"] + 1):
            for seq in itertools.product(kinds, repeat=L):
                yield ((("AES" if is_async else "ES"), tuple(seq)),)
                if L == 1:
                    yield (("AP",), (("AES" if is_async else "ES"), tuple(seq)))


def is_async_spec(spec):
    return spec[0] in ("AP", "AG", "AES")


class BodyError(Exception):
    pass


def run_program(roots, raise_in_body=False, referents=False):
    import stackscope
    REFERENTS[0] = referents
    stackscope.lowlevel.set_trickery_enabled(False if referents else None)
    try:
        return _run_program(roots, raise_in_body)
    finally:
        REFERENTS[0] = False
        stackscope.lowlevel.set_trickery_enabled(None)


def _run_program(roots, raise_in_body=False):
    import stackscope
    rt = Rt()
    nodes = [build(s, rt, 2) for s in roots]
    problems = []
    counter = [0]
    nobs = [0]
    entered = []

    async def body(i):
        if i == len(nodes):
            await trap("body")
            if raise_in_body:
                raise BodyError("leave every block through the exception path")
            return
        n = nodes[i]
        with PO:
            if n.is_async:
                async with n.mgr:
                    entered.append(n)
                    if n.kind == "AES":
                        await populate(n, rt, 2)
                    await body(i + 1)
                entered.remove(n)
            else:
                with n.mgr:
                    entered.append(n)
                    if n.kind == "ES":
                        await populate(n, rt, 2)
                    await body(i + 1)
                entered.remove(n)
    # body() nests coroutine frames: frame i holds root i's context
    co = body(0)

    if not _HP.get("poison_registered"):
        stackscope.elaborate_context.register(Poison)(_poison_hook)
        _HP["poison_registered"] = True

    def observe(tag):
        observe1(tag, False)
        # once more while the outer sibling context of every body frame fails to elaborate: everything else is unchanged
        observe1(tag + "/sibling-fails", True)

    def observe1(tag, poison):
        nobs[0] += 1
        _HP["poison"] = poison
        try:
            with warnings.catch_warnings(record=True) as w:
                warnings.simplefilter("always")
                st = stackscope.extract(co)
        finally:
            _HP["poison"] = False
        if w:
            problems.append("%s: warning %s" % (tag, str(w[0].message)[:150]))
        if poison:
            errs = [] if st.error is None else (list(st.error.exceptions) if hasattr(st.error, "exceptions") else [st.error])
            nbody = sum(1 for f in st.frames for c in _ctxs_of(f) if c.obj is PO)
            if len(errs) != nbody or not all(isinstance(e, PoisonError) for e in errs):
                problems.append("%s: %d failing sibling contexts but errors %r" % (tag, nbody, errs))
        elif st.error is not None:
            problems.append("%s: error %r" % (tag, st.error))
        body_frames = [f for f in st.frames if f.funcname == "body"]
        # root i's context is in body frame i (if that frame is still alive and the manager still active)
        for i, n in enumerate(nodes):
            if i >= len(body_frames):
                break
            f = body_frames[i]
            active = n in entered
            fctx = ctxs_of(f)
            if not active:
                if fctx:
                    problems.append("%s: root %d not active but frame has contexts %r" % (tag, i, fctx))
                continue
            # is it exiting? (its body frame is the innermost body frame and deeper frames exist)
            exiting = (i == len(body_frames) - 1) and tag != "body"
            if len(fctx) != 1:
                problems.append("%s: root %d: %d contexts" % (tag, i, len(fctx)))
                continue
            compare_ctx(fctx[0], n, problems, counter, "%s/root%d" % (tag, i), exiting=exiting)
            if exiting and n.kind == "AG":
                # its generator frames must be in the main series
                gf = gen_frames(n.mgr.gen)
                main = [x.pyframe for x in st.frames]
                if gf and not all(g in main for g in gf[:1]):
                    problems.append("%s: exiting async generator manager's frame is not in the main frame series" % tag)
                else:
                    # contexts of that generator frame: its kids not yet exited
                    for x in st.frames:
                        if gf and x.pyframe is gf[0]:
                            live = [k for k in n.kids if not done_of(k)() or getattr(k.mgr, "exiting", False)]
                            if len(ctxs_of(x)) != len(live):
                                problems.append("%s: exiting AG generator frame has %d contexts, expected %d" % (tag, len(ctxs_of(x)), len(live)))
        # the same frame when a customization hides it and prunes everything inward of it (what customize(hide=True,
        # prune=True) does): its contexts must be unfolded exactly as before
        if not poison and nodes and body_frames and nodes[0] in entered:
            if not _HP["registered"]:
                stackscope.elaborate_frame.register(body.__code__, _hide_and_prune)
                _HP["registered"] = True
            _HP["on"] = True
            try:
                with warnings.catch_warnings(record=True) as w2:
                    warnings.simplefilter("always")
                    st2 = stackscope.extract(co)
            finally:
                _HP["on"] = False
            bf2 = [f for f in st2.frames if f.funcname == "body"]
            if st2.error is not None or w2:
                problems.append("%s/hidden+pruned: error %r warnings %r" % (tag, st2.error, [str(x.message)[:80] for x in w2]))
            elif len(bf2) != 1 or len(st2.frames) != len(st.frames) - len(st.frames[st.frames.index(body_frames[0]) + 1:]) or not bf2[0].hide:
                problems.append("%s/hidden+pruned: frames %r (hide flags %r)" % (tag, [f.funcname for f in st2.frames], [f.hide for f in bf2]))
            else:
                fctx2 = ctxs_of(bf2[0])
                if len(fctx2) != 1:
                    problems.append("%s/hidden+pruned: root 0: %d contexts" % (tag, len(fctx2)))
                else:
                    compare_ctx(fctx2[0], nodes[0], problems, counter, "%s/hidden+pruned/root0" % tag,
                                exiting=(len(body_frames) == 1 and tag != "body"))
    try:
        tag = co.send(None)
        while True:
            observe(tag if isinstance(tag, str) else "unwind:%s%d" % tag)
            tag = co.send(None)
    except StopIteration:
        pass
    except BodyError:
        pass
    return problems, counter[0], nobs[0]


class _PlainCM(object):
    def __init__(s, tag):
        s.tag = tag

    def __enter__(s):
        return s

    def __exit__(s, *exc):
        return False

    async def __aenter__(s):
        return s

    async def __aexit__(s, *exc):
        return False


SHARED_SHAPES = ("two-owners", "three-owners", "owner-and-direct", "two-levels", "two-withs")


def shared_cases():
    for is_async in (False, True):
        for k in (0, 1, 2, 3):
            for shape in SHARED_SHAPES:
                yield {"leg": "shared", "async": is_async, "k": k, "shape": shape}


def check_shared(case):
    """One exit stack object registered at SEVERAL places of the same context tree (a pool of shared resources entered
    into two owner stacks): every occurrence has exactly one child per registered callback, unfolded recursively."""
    import stackscope
    is_async, k, shape = case["async"], case["k"], case["shape"]
    ES = AsyncExitStack if is_async else ExitStack
    regs = {}

    problems = []
    keep = []

    async def build_async(shared):
        async def owner(*members):
            st = AsyncExitStack()
            regs[id(st)] = list(members)
            for m in members:
                await st.enter_async_context(m)
            return st
        if shape == "two-owners":
            return [await owner(await owner(shared), await owner(shared))]
        if shape == "three-owners":
            return [await owner(await owner(shared), await owner(shared), await owner(shared))]
        if shape == "owner-and-direct":
            return [await owner(await owner(shared), shared)]
        if shape == "two-levels":
            return [await owner(await owner(await owner(shared)), await owner(shared))]
        return [await owner(shared), await owner(shared)]

    def build_sync(shared):
        def owner(*members):
            st = ExitStack()
            regs[id(st)] = list(members)
            for m in members:
                st.enter_context(m)
            return st
        if shape == "two-owners":
            return [owner(owner(shared), owner(shared))]
        if shape == "three-owners":
            return [owner(owner(shared), owner(shared), owner(shared))]
        if shape == "owner-and-direct":
            return [owner(owner(shared), shared)]
        if shape == "two-levels":
            return [owner(owner(owner(shared)), owner(shared))]
        return [owner(shared), owner(shared)]

    def sbody():
        shared = ExitStack()
        regs[id(shared)] = []
        for i in range(k):
            m = _PlainCM("m%d" % i)
            regs[id(shared)].append(m)
            shared.enter_context(m)
        tops = build_sync(shared)
        keep.append(tops)
        if len(tops) == 1:
            with tops[0]:
                yield "body"
        else:
            with tops[0]:
                with tops[1]:
                    yield "body"

    if is_async:
        async def prog():
            shared = AsyncExitStack()
            regs[id(shared)] = []
            for i in range(k):
                m = _PlainCM("m%d" % i)
                regs[id(shared)].append(m)
                await shared.enter_async_context(m)
            tops = await build_async(shared)
            keep.append(tops)
            if len(tops) == 1:
                async with tops[0]:
                    await trap("body")
            else:
                async with tops[0]:
                    async with tops[1]:
                        await trap("body")
        target = prog()
        target.send(None)
    else:
        target = sbody()
        next(target)
    count = [0]

    def compare(ctx, obj, path):
        count[0] += 1
        if ctx.obj is not obj:
            problems.append("%s: obj is %r, expected %r" % (path, ctx.obj, obj))
            return
        if id(obj) in regs:
            exp = regs[id(obj)]
            kids = [c for c in ctx.children]
            if len(kids) != len(exp):
                problems.append("%s: exit stack with %d registered callbacks has %d children" % (path, len(exp), len(kids)))
                return
            for i, (c, m) in enumerate(zip(kids, exp)):
                compare(c, m, path + "/%d" % i)
        elif ctx.children:
            problems.append("%s: plain manager with children" % path)
    try:
        with warnings.catch_warnings():
            warnings.simplefilter("ignore")
            st = stackscope.extract(target)
        if st.error is not None:
            problems.append("error %r" % (st.error,))
        ctxs = st.frames[0].contexts if st.frames else []
        tops = keep[0]
        if len(ctxs) != len(tops):
            problems.append("frame has %d contexts, expected %d" % (len(ctxs), len(tops)))
        else:
            for i, (c, t) in enumerate(zip(ctxs, tops)):
                compare(c, t, "ctx%d" % i)
    finally:
        target.close()
    return problems, count[0]


def run(ctx):
    idx = 0
    for case in shared_cases():
        problems, n = check_shared(case)
        ctx.count("evaluations", n)
        ctx.count("distinct_nontrivial")
        ctx.count("shared_stack_cases")
        if problems:
            ctx.violation(case, "; ".join(problems)[:1500], "shared")
    for roots in programs(ctx.tier):
        idx += 1
        if not ctx.mine(idx):
            continue
        for rib, referents in ((False, False), (True, False), (False, True), (True, True)):
            try:
                problems, n, nobs = run_program(roots, rib, referents)
            except Exception as ex:
                import traceback
                problems, n, nobs = ["harness/program raised %r: %s" % (ex, traceback.format_exc()[-600:])], 0, 0
            ctx.count("evaluations", n)
            ctx.count("distinct_nontrivial", nobs)
            ctx.count("programs")
            if referents:
                ctx.count("referents_mode_runs")
            if problems:
                ctx.violation({"roots": roots, "raise_in_body": rib, "referents": referents}, "; ".join(problems)[:1500],
                              ("referents:" if referents else "") + problems[0].split(":")[0].split("/")[0])
        if idx % 997 == 0:
            ctx.sample({"roots": roots, "observations": nobs})


def totuple(x):
    if isinstance(x, list):
        return tuple(totuple(y) for y in x)
    return x


def replay(case):
    if case.get("leg") == "shared":
        return [{"detail": p} for p in check_shared(case)[0]]
    problems, n, nobs = run_program(totuple(case["roots"]), case.get("raise_in_body", False), case.get("referents", False))
    return [{"detail": p} for p in problems]
