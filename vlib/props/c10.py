"""C10 - frame hooks: unwrap to a fixpoint; elaborate_frame edits only the inward rest.

Bounded-exhaustive enumeration of synthetic item trees x hook result tables; each case
is executed on the real extract() (hooks registered through the public API) and
compared with a small reference interpreter of the documented rules.
3.9-compatible.
"""
import itertools
import sys
import types

LEVEL = "model_checking"
RULE = ("All item trees root->(1..3 children drawn from frames A,B,C, sub-items q,r, None) x "
        "container kind {single, tuple, list, yields_frames iterator} x sub-item shapes x every "
        "assignment of elaborate results {None, PRUNE, [], replace-by-frame, replace-by-2-frames, "
        "replace-by-item, insert-frame, insert-item, insert-nothing} to the frames present x "
        "{None, PRUNE, insert, replace} on the frames that hooks insert; plus unwrap chains of "
        "length 0..5, 50, 150 and cycles, and a non-progressing item among siblings that still need unwrapping (differential against an irreducible item in its place: same frames and leaf, exactly one error). A case is non-trivial if at least one hook returns "
        "non-None and it is inside the documented rules (no leaf before a frame); a prune / replacement removes the run of following entries that lie at the frame's unwrapping depth or deeper, counted after everything has been unwrapped (so it reaches into later sibling items of the same unwrap result, and never past an entry of a shallower level); distinct = distinct (tree, hook table).  state = distinct reference-queue "
        "configuration, transition = one reference unwrap/elaborate step; every case's trace is "
        "replayed on the implementation.")
ASSUMPTIONS = [
    "hook tables are static (a hook's answer does not depend on time)",
    "cases where an irreducible non-frame precedes a frame or where None appears as a replacement item are outside the documented rules and skipped (counted)",
    "the 100-step guard is checked at 50 (must succeed) and 150/cyclic (must error); 99..101 are left unconstrained",
]


RULE += ' Round 9: `progress` family - 99..300 levels that all make progress, wrapper runs of up to 99 between frames.'


def legs(tier):
    from vlib.runner import Leg
    if tier == "quick":
        return [Leg("3.12", 12), Leg("3.9", 4, name="3.9")]
    return [Leg("3.12", 16), Leg("3.11", 6), Leg("3.10", 6), Leg("3.9", 6)]


def bounds(tier):
    return {"root_children": 3, "sub_item_children": 2 if tier == "quick" else 3,
            "elab_options": 9, "inserted_frame_options": 2 if tier == "quick" else 4,
            "tree_depth": 2 if tier == "quick" else 3}


# ---------------------------------------------------------------- world
_WORLD = {}


def world():
    if _WORLD:
        return _WORLD
    import stackscope
    from stackscope import unwrap_stackitem, elaborate_frame, yields_frames, PRUNE

    def mkframe(name):
        ns = {}
        exec("def %s():\n    yield\n" % name, ns)
        g = ns[name]()
        next(g)
        return g

    gens = dict((n, mkframe(n)) for n in "ABCDEFGH")
    fr = dict((n, g.gi_frame) for n, g in gens.items())
    code2name = dict((g.gi_code, n) for n, g in gens.items())

    class Item(object):
        def __init__(s, n):
            s.n = n

        def __repr__(s):
            return "I%s" % s.n

        def __len__(s):
            # some stack items are falsy objects (think: an empty task group); only None means "nothing"
            return 0 if s.n in ("r", "t", "s") else 1

    items = {}
    W = _WORLD
    W.update(dict(gens=gens, fr=fr, code2name=code2name, items=items, Item=Item,
                  UNWRAP={}, ELAB={}, stackscope=stackscope, PRUNE=PRUNE, ncalls=[0], lists=[]))

    def resolve(x):
        if x is None:
            return None
        if x in fr:
            return fr[x]
        if x not in items:
            items[x] = Item(x)
        return items[x]

    W["resolve"] = resolve

    @unwrap_stackitem.register(Item)
    def _unwrap(it):
        W["ncalls"][0] += 1
        if W["ncalls"][0] > 5000:
            raise SystemExit("unwrap hook called more than 5000 times: extract() does not terminate")
        spec = W["UNWRAP"].get(it.n)
        if spec is None:
            return None
        kind, names = spec
        objs = [resolve(n) for n in names]
        if kind == "one":
            return objs[0]
        if kind == "tuple":
            return tuple(objs)
        if kind == "list":
            lst = list(objs)
            W["lists"].append((lst, tuple(lst)))
            return lst
        if kind == "iter":
            @yields_frames
            def it_():
                for o in objs:
                    yield o
            return it_()
        raise AssertionError(kind)

    def _elab(frame, next_inner):
        n = code2name[frame.pyframe.f_code]
        spec = W["ELAB"].get(n)
        if spec is None:
            return None
        kind, names = spec
        if kind == "prune":
            return PRUNE
        if kind == "emptylist":
            return []
        objs = [resolve(x) for x in names]
        if kind == "replace1":
            return objs[0]
        if kind == "replace":
            return tuple(objs)
        if kind == "replacelist":
            lst = list(objs)
            W["lists"].append((lst, tuple(lst)))
            return lst
        if kind == "insert":
            return tuple(objs) + (next_inner,)
        if kind == "insertlist":
            return list(objs) + [next_inner]
        raise AssertionError(kind)

    for g in gens.values():
        elaborate_frame.register(g.gi_code, _elab)
    return W


# ---------------------------------------------------------------- reference model
class OutOfScope(Exception):
    pass


class RefStats(object):
    def __init__(self):
        self.states = set()
        self.transitions = 0


def reference(case, stats=None, buggy_f7=False):
    """Reference interpretation of the documented rules.
    Entries are (kind, name, depth, path): kind 'F' frame / 'L' leaf; `path` is the chain of unwrapped ancestors
    (it defines what is inward of what: the callees of a frame are the following entries inside its parent's
    subtree); `depth` mirrors the implementation's bookkeeping and is only used to recognise cases where a
    depth-based extent and the tree-based extent would differ (those are outside the documented rules).
    Items inserted by an elaborate hook (sequence ending in next_inner) form a sub-stack of their own."""
    UNWRAP = case["unwrap"]
    ELAB = case["elab"]
    FR = "ABCDEFGH"
    steps = [0]
    nid = [0]

    def unwrap_all(name, depth, path):
        if stats is not None:
            stats.transitions += 1
        if name in FR:
            return [("F", name, depth, path)]
        spec = UNWRAP.get(name)
        if spec is None:
            return [("L", name, depth, path)]
        nid[0] += 1
        me = path + ((name, nid[0]),)
        out = []
        for n in spec[1]:
            if n is None:
                continue
            steps[0] += 1
            if steps[0] > 300:
                raise OutOfScope("diverges")
            out += unwrap_all(n, depth + 1, me)
        return out

    def remove_callees(q, d, path):
        k_tree = 0
        while k_tree < len(q) and q[k_tree][3][:len(path)] == path:
            k_tree += 1
        k_depth = 0
        while k_depth < len(q) and q[k_depth][2] >= d:
            k_depth += 1
        if k_tree != k_depth and stats is not None:
            # sibling items of one unwrap result lie at the same depth: a prune issued inside the first also removes
            # the frames of the later ones (they are what the earlier ones are busy with). The statement fixes the
            # order - everything is unwrapped until only frames and leaves remain, THEN a frame's result edits the
            # remainder - so the extent is the run of following entries at the frame's depth or deeper, whatever
            # sub-item they came from. (Counted: these are the cases a lazily unwrapping implementation gets wrong.)
            stats.sibling_prunes = getattr(stats, "sibling_prunes", 0) + 1
        del q[:k_depth]

    q = unwrap_all(case["root"], 0, ())
    frames = []
    while q:
        if stats is not None:
            stats.states.add(tuple((e[0], e[1], len(e[3])) for e in q) + (len(frames),))
        if q[0][0] == "L":
            if any(e[0] == "F" for e in q):
                raise OutOfScope("leaf before frame")
            return frames, ([e[1] for e in q] if len(q) > 1 else q[0][1])
        _, f, d, path = q.pop(0)
        frames.append(f)
        if len(frames) > 40:
            raise OutOfScope("diverges")
        spec = ELAB.get(f)
        if stats is not None:
            stats.transitions += 1
        if spec is None:
            continue
        kind, names = spec
        if kind in ("prune", "emptylist", "replace", "replace1", "replacelist"):
            remove_callees(q, d, path)
            new = []
            if kind.startswith("replace"):
                for n in names:
                    if n is None:
                        raise OutOfScope("None in replacement")
                    new += unwrap_all(n, d, path)
            q = new + q
        elif kind in ("insert", "insertlist"):
            new = []
            nid[0] += 1
            ipath = path + (("inserted", nid[0]),)
            idepth = 1 + max([d] + [e[2] for e in q])
            if buggy_f7:
                idepth = d
                if q:
                    q[0] = (q[0][0], q[0][1], d, q[0][3])
            for n in names:
                if n is None:
                    raise OutOfScope("None in insertion")
                new += unwrap_all(n, idepth, ipath)
            q = new + q
        else:
            raise AssertionError(kind)
    return frames, None


# ---------------------------------------------------------------- implementation run
def run_impl(case):
    W = world()
    W["UNWRAP"].clear()
    W["ELAB"].clear()
    for k, v in case["unwrap"].items():
        W["UNWRAP"][k] = None if v is None else (v[0], tuple(v[1]))
    for k, v in case["elab"].items():
        W["ELAB"][k] = None if v is None else (v[0], tuple(v[1]))
    W["ncalls"][0] = 0
    del W["lists"][:]
    st = W["stackscope"].extract(W["resolve"](case["root"]), with_contexts=False)
    c2n = W["code2name"]
    frames = [c2n.get(f.pyframe.f_code, "?") for f in st.frames]

    def nm(x):
        if x is None:
            return None
        if isinstance(x, W["stackscope"].Frame):
            return c2n.get(x.pyframe.f_code, "?")
        if isinstance(x, types.FrameType):
            return c2n.get(x.f_code, "?")
        return getattr(x, "n", repr(x))

    leaf = st.leaf
    if isinstance(leaf, list):
        leaf = [nm(x) for x in leaf]
    else:
        leaf = nm(leaf)
    err = st.error
    for lst, snap in W["lists"]:
        # a sequence handed over by a hook belongs to the hook (it may hand the same object over again next time)
        if tuple(lst) != snap and err is None:
            err = AssertionError("a list returned by a hook was modified by extract(): %r, was %r" % ([nm(x) for x in lst], [nm(x) for x in snap]))
    return frames, leaf, err


def check_case(case, stats=None):
    """Returns (status, detail, sig). status in ok / oos / viol"""
    if case.get("mode") == "chain":
        return check_chain(case)
    if case.get("mode") == "stuck":
        return check_stuck(case)
    if case.get("mode") == "progress":
        return check_progress(case)
    try:
        rf, rl = reference(case, stats)
    except OutOfScope as ex:
        return "oos", str(ex), ""
    try:
        gf, gl, ge = run_impl(case)
    except BaseException as ex:  # noqa
        if isinstance(ex, KeyboardInterrupt):
            raise
        return "viol", "extract raised %s: %s (reference: frames=%s leaf=%s)" % (type(ex).__name__, ex, rf, rl), "raised:" + type(ex).__name__
    if gf == rf and gl == rl and ge is None:
        return "ok", "", ""
    sig = "mismatch"
    try:
        rf2, rl2 = reference(case, None, buggy_f7=True)
        if rf2 == gf and rl2 == gl and ge is None:
            sig = "mismatch:insert-redepths-next_inner"
    except OutOfScope:
        pass
    return "viol", "impl frames=%s leaf=%s error=%r; reference frames=%s leaf=%s" % (gf, gl, ge, rf, rl), sig


def check_stuck(case):
    """An item that never makes progress (it unwraps to itself, directly or through a short cycle) among siblings that
    still need unwrapping.  Differential oracle: the same tree with an irreducible item in its place; the stuck one must
    change nothing but add exactly one error (everything after it is unwrapped as if it were simply irreducible)."""
    before, after, cyc = case["before"], case["after"], case["cycle"]
    base = {"q": ["tuple", ["A"]], "r": ["one", ["u"]], "u": ["one", ["D"]], "v": ["list", ["C", "q"]]}

    def tree(stuck):
        unwrap = dict(base)
        if stuck:
            for i in range(cyc):
                unwrap["k%d" % i] = [case["kind"], ["k%d" % ((i + 1) % cyc)]]
        else:
            unwrap["k0"] = None
        unwrap["p"] = ["tuple", before + ["k0"] + after]
        return {"root": "p", "unwrap": unwrap, "elab": {}}
    try:
        tf, tl, te = run_impl(tree(False))
        sf, sl, se = run_impl(tree(True))
    except BaseException as ex:  # noqa
        if isinstance(ex, KeyboardInterrupt):
            raise
        return "viol", "extract raised/hung %s: %s on %s" % (type(ex).__name__, ex, case), "stuck-raised"
    if te is not None:
        return "viol", "twin with an irreducible item reports an error %r (%s)" % (te, case), "stuck-twin"

    def norm(leaf):
        if isinstance(leaf, list):
            return [("K" if isinstance(x, str) and x.startswith("k") else x) for x in leaf]
        return "K" if isinstance(leaf, str) and leaf.startswith("k") else leaf
    nerr = 0 if se is None else (len(se.exceptions) if hasattr(se, "exceptions") else 1)
    if sf != tf or norm(sl) != norm(tl) or nerr != 1:
        return "viol", "stuck item among siblings %s: frames=%s leaf=%s errors=%d; with an irreducible item in its place: frames=%s leaf=%s" % (
            case, sf, sl, nerr, tf, tl), "stuck-siblings"
    return "ok", "", ""


def check_chain(case):
    """root c0 -> c1 -> ... -> c(n-1) -> (A,) ; or cyclic."""
    n = case["n"]
    cyc = case.get("cyclic")
    kind = case.get("kind", "one")
    unwrap = {}
    for i in range(n):
        nxt = "c%d" % (i + 1) if i + 1 < n else ("c%d" % case.get("back", 0) if cyc else "A")
        unwrap["c%d" % i] = [kind, [nxt]]
    c = {"root": "c0" if n else "A", "unwrap": unwrap, "elab": {}}
    pre = case.get("prefix_frame")
    if pre:
        c["unwrap"]["p"] = ["tuple", ["B", c["root"]]]
        c["root"] = "p"
    try:
        gf, gl, ge = run_impl(c)
    except BaseException as ex:  # noqa
        if isinstance(ex, KeyboardInterrupt):
            raise
        return "viol", "extract raised/hung %s: %s on chain %s" % (type(ex).__name__, ex, case), "chain-raised"
    expect_frames = (["B"] if pre else [])
    if cyc or n > 101:
        if ge is None:
            return "viol", "no error for non-progressing unwrap chain %s (frames=%s leaf=%s)" % (case, gf, gl), "chain-noerror"
        if gf[:len(expect_frames)] != expect_frames:
            return "viol", "outer frames lost on chain %s: %s" % (case, gf), "chain-frames"
        return "ok", "", ""
    if n < 100:
        if ge is not None or gf != expect_frames + ["A"] or gl is not None:
            return "viol", "chain of %d unwraps: frames=%s leaf=%s error=%r" % (n, gf, gl, ge), "chain-short"
    return "ok", "", ""


def check_progress(case):
    """Deep but honest nesting: n levels, each a run of `run` plain wrappers followed by an item that hands over
    (frame, next level). Every frame is progress, so no amount of total depth is a runaway: exactly the n frames, the
    final irreducible item as leaf (if any), no error."""
    n, run, kind, end = case["n"], case["run"], case["kind"], case["end"]
    unwrap = {}
    names = "ABCDEFGH"
    for i in range(n):
        for j in range(run):
            unwrap["w%d_%d" % (i, j)] = ["one", ["w%d_%d" % (i, j + 1) if j + 1 < run else "d%d" % i]]
        nxt = ("w%d_0" % (i + 1) if run else "d%d" % (i + 1)) if i + 1 < n else None
        if nxt is None and end == "leaf":
            nxt = "z"
        unwrap["d%d" % i] = [kind, [names[i % 8]] + ([nxt] if nxt else [])]
    unwrap["z"] = None
    c = {"root": "w0_0" if run else "d0", "unwrap": unwrap, "elab": {}}
    try:
        gf, gl, ge = run_impl(c)
    except BaseException as ex:  # noqa
        if isinstance(ex, KeyboardInterrupt):
            raise
        return "viol", "extract raised/hung %s: %s on %s" % (type(ex).__name__, ex, case), "progress-raised"
    exp = [names[i % 8] for i in range(n)]
    if gf != exp or ge is not None or gl != ("z" if end == "leaf" else None):
        return "viol", "%s: %d frames (expected %d), first difference at %s, leaf=%s error=%r" % (
            case, len(gf), n, next((i for i, (a, b) in enumerate(zip(gf, exp)) if a != b), min(len(gf), len(exp))), gl, ge), "progress"
    return "ok", "", ""


def gen_progress():
    for n, run in ((3, 0), (3, 2), (99, 0), (100, 0), (101, 0), (102, 0), (150, 0), (300, 0), (3, 40), (3, 60), (2, 99), (51, 1), (34, 2), (26, 3), (60, 4)):
        for kind in ("tuple", "list", "iter"):
            for end in ("frame", "leaf"):
                yield {"mode": "progress", "n": n, "run": run, "kind": kind, "end": end}


# ---------------------------------------------------------------- enumeration
ELAB_SPECS = [None, ["prune", []], ["emptylist", []], ["replace1", ["E"]], ["replace", ["E", "F"]],
              ["replace1", ["s"]], ["insert", ["E"]], ["insert", ["s"]], ["insert", []]]
ELAB_SPECS_T = ELAB_SPECS + [["insertlist", ["E"]], ["replacelist", ["s"]], ["insert", ["G", "s"]]]


def gen_cases(tier):
    FR = "ABC"
    thorough = tier == "thorough"
    leafy = ["A", "B", "C", "q", "r"]
    sub_shapes = [[], ["C"], ["D"], ["C", "D"], ["t"], ["C", "t"], ["D", None]]
    if thorough:
        sub_shapes += [["u"], ["C", "u"], ["u", "D"]]
        leafy = leafy + [None]
    specs = ELAB_SPECS_T if thorough else ELAB_SPECS
    ins_opts = [None, ["prune", []]]
    if thorough:
        ins_opts += [["insert", ["H"]], ["replace1", ["H"]]]
    root_shapes = []
    for n in (1, 2, 3):
        for combo in itertools.product(leafy, repeat=n):
            frs = [c for c in combo if c is not None and c in FR]
            if len(set(frs)) != len(frs):
                continue
            if combo.count("q") > 1 or combo.count("r") > 1:
                continue
            if all(c is None for c in combo):
                continue
            root_shapes.append(list(combo))
    for rootspec in root_shapes:
        kinds = ["tuple", "list", "iter"] + (["one"] if len(rootspec) == 1 else [])
        for qs in (sub_shapes if "q" in rootspec else [[]]):
            for rs in (sub_shapes if "r" in rootspec else [[]]):
                used = [x for x in rootspec if x is not None and x in "ABCD"] + [x for x in qs + rs if x is not None and x in "ABCD"]
                if "u" in qs or "u" in rs:
                    used = used + ["D"] if "D" not in used else None
                    if used is None:
                        continue
                if len(set(used)) != len(used):
                    continue
                if qs.count("u") + rs.count("u") > 1:
                    continue
                fl = sorted(set(used))
                # sub-items with exactly one child are also tried as a bare (non-sequence) unwrap result
                qkinds = ["tuple", "one"] if len(qs) == 1 and qs[0] is not None else ["tuple"]
                rkinds = ["list", "one"] if len(rs) == 1 and rs[0] is not None else ["list"]
                for kind, qkind, rkind in itertools.product(kinds, qkinds, rkinds):
                    unwrap = {"p": [kind, rootspec], "q": [qkind, qs], "r": [rkind, rs],
                              "s": ["tuple", ["E", "F"]], "t": None, "u": ["one", ["D"]]}
                    for especs in itertools.product(specs, repeat=len(fl)):
                        touches = any(e is not None and e[0] != "prune" and e[0] != "emptylist" for e in especs)
                        for ee in (ins_opts if touches else [None]):
                            for fe in ([None, ["prune", []]] if (thorough and touches and any(e and ("s" in e[1] or "F" in e[1]) for e in especs)) else [None]):
                                elab = {}
                                for f, e in zip(fl, especs):
                                    if e is not None:
                                        elab[f] = e
                                if ee is not None:
                                    elab["E"] = ee
                                if fe is not None:
                                    elab["F"] = fe
                                yield {"root": "p", "unwrap": unwrap, "elab": elab}


def gen_chains():
    for n in (0, 1, 2, 3, 4, 5, 50, 150):
        for pre in (False, True):
            for kind in ("one", "tuple", "list", "iter"):
                yield {"mode": "chain", "n": n, "prefix_frame": pre, "kind": kind}
    for n in (1, 2, 3, 7):
        for back in range(n):
            for pre in (False, True):
                for kind in ("one", "tuple", "iter"):
                    yield {"mode": "chain", "n": n, "cyclic": True, "back": back, "prefix_frame": pre, "kind": kind}


def gen_stuck():
    for before in ([], ["B"], ["q"]):
        for after in (["q"], ["r"], ["v"], ["q", "r"], ["A"], ["r", "B"], []):
            if "q" in before and ("q" in after or "v" in after):
                continue
            if "B" in before and "B" in after:
                continue
            for cyc in (1, 2):
                for kind in ("one", "tuple"):
                    yield {"mode": "stuck", "before": before, "after": after, "cycle": cyc, "kind": kind}


def run(ctx):
    stats = RefStats()
    idx = 0
    for case in itertools.chain(gen_chains(), gen_stuck(), gen_progress(), gen_cases(ctx.tier)):
        idx += 1
        if not ctx.mine(idx):
            continue
        ctx.count("evaluations")
        if idx % 5000 == 0:
            ctx.inflight(case)
        status, detail, sig = check_case(case, stats)
        if status == "oos":
            ctx.count("out_of_scope")
            ctx.count("oos:" + detail)
            continue
        ctx.count("traces_validated_against_impl")
        if case.get("mode") in ("chain", "stuck", "progress") or case["elab"]:
            ctx.count("distinct_nontrivial")
        if status == "viol":
            ctx.violation(case, detail, sig)
        if idx % 20011 == 0:
            ctx.sample(case)
    ctx.counters["states"] = len(stats.states)
    ctx.counters["transitions"] = stats.transitions
    ctx.counters["prunes_reaching_into_sibling_items"] = getattr(stats, "sibling_prunes", 0)


def replay(case):
    status, detail, sig = check_case(case)
    if status == "viol":
        return [{"detail": detail, "sig": sig}]
    return []
