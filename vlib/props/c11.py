"""C11 - context hooks: elaborate, unwrap, re-elaborate until steady state.
All wrapper chains of bounded length over synthetic manager types and generator-based managers x hook
result tables, run on the real fill_context()/extract() and compared with a reference loop.  3.9 compatible."""
import contextlib
import itertools
import sys
import types
import warnings

LEVEL = "model_checking"
RULE = ("Every chain m0 -> m1 -> ... of length 0..L whose elements are synthetic managers (unwrap_context hook) or "
        "@contextmanager managers (unwrap_context_generator hook on the generator's code), each element's elaborate_context "
        "setting one of {nothing, description, children, inner_stack, all three, obj := plain object}, the last element's unwrap "
        "returning one of {None, PRUNE, itself (cycle), the first element (cycle)}; x {not exiting, exiting} x {bare "
        "fill_context, inside extract() of a frame suspended in the with body, inside extract() of a frame suspended in "
        "__aexit__, and inside extract() of a frame that holds sibling contexts outward/inward of it of which one unwraps to itself forever (its own fill fails; every other context of the frame must still go through the whole loop, and each failure is reported)}; plus straight chains of 99 and 101 steps. Reference: the documented loop; compared: the hook call log "
        "(elab(m0), unwrap(m0), elab(m1), ...), final obj / hide / description / children / inner_stack, and error iff > 100 "
        "steps. Bare fill_context calls while another thread is parked inside an extract() of its own (either option setting). Each worker process starts with bare fill_context calls on generator-based managers before any extraction has run in it. state = (position in chain, context fields); transition = one hook call; every trace is replayed on the "
        "implementation.")
ASSUMPTIONS = ["at exactly 100 successful unwrap steps either outcome is accepted: an error, or a complete steady state (the property says 'more than 100')"]


RULE += " Round 9: chains through a yield-from manager also while the frame hook of the helper frame below the manager's own frame fails."


def legs(tier):
    from vlib.runner import Leg
    n = 2 if tier == "quick" else 6
    return [Leg(v, n) for v in ("3.12", "3.11", "3.10", "3.9")]


def bounds(tier):
    return {"max_chain": 3 if tier == "quick" else 5}


_W = {}


@types.coroutine
def trap():
    yield "t"


def world():
    if _W:
        return _W
    import stackscope
    from stackscope import Context, Stack, PRUNE

    class W(object):
        """synthetic manager; behaviour looked up in the current table"""

        def __init__(s, name):
            s.name = name

        def __repr__(s):
            return "W(%s)" % s.name

        def __enter__(s):
            return s

        def __exit__(s, *a):
            return False

        async def __aenter__(s):
            return s

        async def __aexit__(s, *a):
            await trap()
            return False

    class WF(W):
        """a manager that is falsy (e.g. an empty pool): must be handled like any other manager"""

        def __len__(s):
            return 0

        def __repr__(s):
            return "WF(%s)" % s.name

    class Plain(object):
        def __repr__(s):
            return "Plain"

    T = {"table": {}, "log": [], "objs": {}}

    @stackscope.unwrap_context.register(W)
    def _uw(mgr, context):
        T["log"].append(("unwrap", mgr.name))
        if len(T["log"]) > 1000:
            raise SystemExit("hooks called more than 1000 times: fill_context does not terminate")
        spec = T["table"][mgr.name]["unwrap"]
        return resolve_unwrap(spec)

    @stackscope.elaborate_context.register(W)
    def _el(mgr, context):
        T["log"].append(("elab", mgr.name))
        apply_elab(T["table"][mgr.name]["elab"], mgr.name, context)

    def resolve_unwrap(spec):
        if spec is None:
            return None
        if spec == "PRUNE":
            return PRUNE
        return T["objs"][spec]

    def apply_elab(e, name, context):
        if e in ("desc", "all"):
            context.description = "desc-" + name
        if e in ("children", "all"):
            context.children = [Context(obj=None, is_async=False, description="child-of-" + name)]
        if e in ("inner", "all"):
            context.inner_stack = Stack(root="inner-of-" + name, frames=[])
        if e == "obj":
            context.obj = T["plain"]

    # generator-based managers: one function per index so that each has its own code object
    gcms = {}
    for i in range(5):
        ns = {"contextlib": contextlib}
        exec("@contextlib.contextmanager\ndef gcm%d():\n    with contextlib.nullcontext():\n        yield 'in-gcm%d'\n" % (i, i), ns)
        fn = ns["gcm%d" % i]
        gcms["g%d" % i] = fn
        # the same through a helper generator: the manager's own frame is then not the innermost of its inner stack
        exec("def _hold%d():\n    yield 'in-gcmy%d'\n\n@contextlib.contextmanager\ndef gcmy%d():\n    with contextlib.nullcontext():\n        yield from _hold%d()\n" % (i, i, i, i), ns)
        gcms["y%d" % i] = ns["gcmy%d" % i]

        def mk(name):
            def ucg(frame, context):
                T["log"].append(("ucg", name))
                if len(T["log"]) > 1000:
                    raise SystemExit("hooks called more than 1000 times: fill_context does not terminate")
                return resolve_unwrap(T["table"][name]["unwrap"])
            return ucg
        def hold_elab(frame, next_inner):
            # a frame hook of the helper generator's frame (below the manager's own frame) that fails on demand
            if T.get("hold_fault"):
                raise LookupError("elaborate_frame hook of the manager's helper frame fails")
        stackscope.elaborate_frame.register(ns["_hold%d" % i], hold_elab)
        stackscope.unwrap_context_generator.register(fn, mk("g%d" % i))
        stackscope.unwrap_context_generator.register(ns["gcmy%d" % i], mk("y%d" % i))
    T["plain"] = Plain()
    _W.update(dict(W=W, WF=WF, T=T, gcms=gcms, stackscope=stackscope, Context=Context, Stack=Stack, PRUNE=PRUNE))
    return _W


def setup(case):
    """Instantiate the chain's managers. Returns m0."""
    w = world()
    T = w["T"]
    T["table"] = {}
    T["objs"] = {}
    T["log"] = []
    names = case["names"]
    for i, nm in enumerate(names):
        if nm.startswith("w"):
            T["objs"][nm] = w["W"](nm)
        elif nm.startswith("f"):
            T["objs"][nm] = w["WF"](nm)
        else:
            mgr = w["gcms"][nm]()
            mgr.__enter__()  # start the generator so that it has a frame
            T["objs"][nm] = mgr
    for i, nm in enumerate(names):
        if i + 1 < len(names):
            uw = names[i + 1]
        else:
            uw = case["last"]
            if uw == "self":
                uw = nm
            elif uw == "first":
                uw = names[0]
        T["table"][nm] = {"unwrap": uw, "elab": case["elabs"][i]}
    return T["objs"][names[0]] if names else None


def teardown():
    T = world()["T"]
    for o in T["objs"].values():
        if not isinstance(o, world()["W"]):
            try:
                o.__exit__(None, None, None)
            except BaseException:
                pass


def reference(case, exiting, limit=100):
    """Returns dict(log, obj(name), hide, desc, has_children, has_inner, error)"""
    names = case["names"]
    table = {}
    for i, nm in enumerate(names):
        if i + 1 < len(names):
            uw = names[i + 1]
        else:
            uw = case["last"]
            if uw == "self":
                uw = nm
            elif uw == "first":
                uw = names[0]
        table[nm] = {"unwrap": uw, "elab": case["elabs"][i]}
    log = []
    cur = names[0]
    f = {"hide": False, "desc": None, "children": None, "inner": None}
    states = set()
    ntrans = 0
    for step in range(limit):
        # elaborate
        if cur == "PLAIN":
            pass
        elif cur[0] in "wf":
            log.append(("elab", cur))
            ntrans += 1
            e = table[cur]["elab"]
            if e in ("desc", "all"):
                f["desc"] = "desc-" + cur
            if e in ("children", "all"):
                f["children"] = "child-of-" + cur
            if e in ("inner", "all"):
                f["inner"] = "inner-of-" + cur
            if e == "obj":
                cur = "PLAIN"
        else:
            # built-in glue for generator-based managers: inner_stack unless exiting, description always
            f["desc"] = "GCM"
            if not exiting:
                # the manager's generator frames, analysed with their own contexts (one with-block in the manager's body)
                f["inner"] = "gen-of-" + cur + "/ctx1"
        # unwrap
        if cur == "PLAIN":
            r = None
        elif cur[0] in "wf":
            log.append(("unwrap", cur))
            ntrans += 1
            r = table[cur]["unwrap"]
        else:
            log.append(("ucg", cur))
            ntrans += 1
            r = table[cur]["unwrap"]
        states.add((cur, f["hide"], f["desc"], f["children"], f["inner"], step))
        if r is None:
            return dict(log=log, obj=cur, error=False, states=states, ntrans=ntrans, **f)
        if r == "PRUNE":
            f["hide"] = True
            return dict(log=log, obj=cur, error=False, states=states, ntrans=ntrans, **f)
        cur = r
        f["inner"] = None
        f["children"] = None
    return dict(log=log, obj=cur, error=True, states=states, ntrans=ntrans, **f)


def summarize(ctxobj, err):
    w = world()
    T = w["T"]
    o = ctxobj.obj
    if o is T["plain"]:
        name = "PLAIN"
    else:
        name = None
        for k, v in T["objs"].items():
            if v is o:
                name = k
        if name is None:
            name = repr(o)
    desc = ctxobj.description
    if desc is not None and not desc.startswith("desc-"):
        desc = "GCM"
    children = None
    if ctxobj.children:
        c0 = ctxobj.children[0]
        children = getattr(c0, "description", repr(c0))
    inner = None
    if ctxobj.inner_stack is not None:
        r = ctxobj.inner_stack.root
        if isinstance(r, str):
            inner = r
        else:
            # extraction of a gcm's generator
            for k, v in T["objs"].items():
                if getattr(v, "gen", None) is r:
                    inner = "gen-of-" + k + "/ctx%d" % sum(len(fr.contexts) for fr in ctxobj.inner_stack.frames)
            if inner is None:
                inner = repr(r)
    return dict(obj=name, hide=ctxobj.hide, desc=desc, children=children, inner=inner, error=err)


def compare(ref, got, log, what):
    problems = []
    for k in ("obj", "hide", "desc", "children", "inner"):
        if ref["error"] and k != "hide":
            continue
        if ref[k] != got[k]:
            problems.append("%s: %s is %r, reference %r" % (what, k, got[k], ref[k]))
    if bool(got["error"]) != ref["error"]:
        problems.append("%s: error=%r, reference error=%r" % (what, got["error"], ref["error"]))
    if not ref["error"] and log != ref["log"]:
        problems.append("%s: hook call log %r, reference %r" % (what, log, ref["log"]))
    if ref["error"] and log[:len(ref["log"])] != ref["log"]:
        problems.append("%s: hook call log prefix differs from reference" % what)
    return problems


def run_bare(case, exiting):
    w = world()
    m0 = setup(case)
    try:
        c = w["Context"](obj=m0, is_async=False, is_exiting=exiting)
        err = None
        try:
            with warnings.catch_warnings():
                warnings.simplefilter("ignore")
                w["stackscope"].fill_context(c)
        except RuntimeError as ex:
            err = ex
        return summarize(c, err), list(w["T"]["log"])
    finally:
        teardown()


def run_with_siblings(case, exiting, sibs):
    """`for every context`: the frame holds other contexts besides m0's - an outer sibling `so` and (unless m0 is exiting) an
    inner sibling `si`, each either steady ('ok') or unwrapping to itself forever ('cyc': its fill_context fails).
    Whatever happens to one context, every other context of the frame goes through the full loop.
    Returns a list of problems."""
    w = world()
    m0 = setup(case)
    T = w["T"]
    ref = reference(case, exiting)
    so_kind, si_kind = sibs
    try:
        so = T["objs"]["so"] = w["W"]("so")
        T["table"]["so"] = {"unwrap": ("so" if so_kind == "cyc" else None), "elab": "desc"}
        si = None
        if si_kind is not None:
            si = T["objs"]["si"] = w["W"]("si")
            T["table"]["si"] = {"unwrap": ("si" if si_kind == "cyc" else None), "elab": "desc"}

        async def target():
            with so:
                async with m0:
                    if not exiting:
                        with si:
                            await trap()
        co = target()
        co.send(None)
        T["log"] = []
        with warnings.catch_warnings():
            warnings.simplefilter("ignore")
            st = w["stackscope"].extract(co)
        log = list(T["log"])
        try:
            while True:
                co.send(None)
        except StopIteration:
            pass
        what = "siblings(%s,%s)/exiting=%r" % (so_kind, si_kind, exiting)
        problems = []
        cs_ = st.frames[0].contexts
        want = 3 if si is not None else 2
        if len(cs_) != want or cs_[0].obj is not so or cs_[1].is_exiting != exiting:
            return ["%s: harness: contexts %r" % (what, cs_)]

        def sib_log(nm, kind):
            if kind == "cyc":
                return [("elab", nm), ("unwrap", nm)] * 100 + [("unwrap", nm)]
            return [("elab", nm), ("unwrap", nm)]
        chain_log = [e for e in log if e[1] not in ("so", "si")]
        exp_log = sib_log("so", so_kind) + (ref["log"] if not ref["error"] else chain_log) + (sib_log("si", si_kind) if si is not None else [])
        if log != exp_log:
            problems.append("%s: hook call log differs: got %d calls %r..., expected %d %r..." % (
                what, len(log), [e for e in log if e[1] in ("so", "si")][-3:], len(exp_log), exp_log[-3:]))
        nerr = (so_kind == "cyc") + bool(ref["error"]) + (si_kind == "cyc")
        got_errs = []
        if st.error is not None:
            got_errs = list(st.error.exceptions) if hasattr(st.error, "exceptions") else [st.error]
        if len(got_errs) != nerr:
            problems.append("%s: %d errors reported (%r), expected %d" % (what, len(got_errs), st.error, nerr))
        got = summarize(cs_[1], ref["error"])
        problems += compare(ref, got, chain_log, what)
        for c, nm in ((cs_[0], "so"), (cs_[2] if si is not None else None, "si")):
            if c is not None and c.description != "desc-" + nm:
                problems.append("%s: sibling context %s was not elaborated (description %r)" % (what, nm, c.description))
        return problems
    finally:
        teardown()


def run_in_extract(case, exiting):
    """Suspend a coroutine inside `async with m0:` (body or __aexit__) and extract it. m0 must be a W."""
    w = world()
    m0 = setup(case)
    try:
        async def target():
            async with m0:
                if not exiting:
                    await trap()
        co = target()
        co.send(None)
        w["T"]["log"] = []
        with warnings.catch_warnings():
            warnings.simplefilter("ignore")
            st = w["stackscope"].extract(co)
        saved_log = list(w["T"]["log"])
        try:
            while True:
                co.send(None)
        except StopIteration:
            pass
        w["T"]["log"] = saved_log
        cs_ = st.frames[0].contexts
        if len(cs_) != 1 or cs_[0].is_exiting != exiting:
            return None, "harness: contexts %r" % (cs_,)
        return summarize(cs_[0], st.error), list(w["T"]["log"])
    finally:
        teardown()


ELABS_W = ["none", "desc", "children", "inner", "all", "obj"]
LASTS = [None, "PRUNE", "self", "first"]


def gen_cases(maxlen):
    kinds_all = ["w", "g", "f", "y"]
    for L in range(1, maxlen + 1):
        for kinds in itertools.product(kinds_all, repeat=L):
            names = []
            for i, k in enumerate(kinds):
                names.append("%s%d" % (k, i))
            elab_opts = [(ELABS_W if k == "w" else (["none", "desc"] if k == "f" else ["builtin"])) for k in kinds]
            for elabs in itertools.product(*elab_opts):
                # an element that sets obj:=Plain ends the chain there (later elements would be unreachable): only allow on last
                if any(e == "obj" for e in elabs[:-1]):
                    continue
                for last in LASTS:
                    yield {"names": names, "elabs": list(elabs), "last": last}
    for n in (99, 100, 101):
        yield {"names": ["w%d" % i for i in range(n + 1)], "elabs": ["desc"] * (n + 1), "last": None, "long": n}


def check_case(case):
    problems = []
    stats = [0, set()]
    for exiting in (False, True):
        ref = reference(case, exiting)
        stats[0] += ref["ntrans"]
        stats[1] |= ref["states"]
        got, log = run_bare(case, exiting)
        if case.get("long") == 100:
            # exactly 100 successful unwrap steps: the statement only says that MORE than 100 is an error. Either an
            # error is reported, or the context must be complete (the 101st manager installed AND elaborated).
            if not got["error"]:
                problems += compare(reference(case, exiting, limit=1000), got, log, "bare/exactly-100-steps/exiting=%r" % exiting)
            continue
        problems += compare(ref, got, log, "bare/exiting=%r" % exiting)
        if any(nm.startswith("y") for nm in case["names"]) and not case.get("long"):
            # the same while a frame hook fails on a frame BELOW the generator-based manager's own frame: that is an
            # error of the manager's inner stack, not of the context loop, which runs to its steady state all the same
            world()["T"]["hold_fault"] = True
            try:
                got3, log3 = run_bare(case, exiting)
            except LookupError as ex:
                got3 = None
                problems.append("bare/helper-frame-hook-fails/exiting=%r: fill_context raised the frame hook's %r (an error of "
                                "the manager's inner stack; no context hook failed)" % (exiting, ex))
            finally:
                world()["T"]["hold_fault"] = False
            if got3 is not None:
                problems += compare(ref, got3, log3, "bare/helper-frame-hook-fails/exiting=%r" % exiting)
        if case["names"][0][0] in "wf" and not case.get("long"):
            got2, log2 = run_in_extract(case, exiting)
            if got2 is None:
                problems.append(log2)
            else:
                problems += compare(ref, got2, log2, "in-extract/exiting=%r" % exiting)
                # bare call == call inside extract
                if not ref["error"]:
                    for k in ("obj", "hide", "desc", "children", "inner"):
                        if got[k] != got2[k]:
                            problems.append("bare fill_context and extract() disagree on %s: %r vs %r" % (k, got[k], got2[k]))
            for sibs in ((("cyc", None),) if exiting else (("cyc", "ok"), ("ok", "cyc"))):
                problems += run_with_siblings(case, exiting, sibs)
    return problems, stats


COLD_CASES = [{"names": ["g0"], "elabs": ["builtin"], "last": None, "cold": True},
              {"names": ["w0", "y1"], "elabs": ["desc", "builtin"], "last": None, "cold": True}]


def cold_start_check():
    """`fill_context gives the same result when called outside any extract as inside one` - also when it is the very
    first thing this process asks of stackscope (no extraction has run yet, so nothing an extraction would have set up
    lazily exists).  Must be called before anything else in a fresh process; returns problems."""
    problems = []
    for case in COLD_CASES:
        for exiting in (False, True):
            ref = reference(case, exiting)
            got, log = run_bare(case, exiting)
            problems += compare(ref, got, log, "first call in a fresh process/%s/exiting=%r" % ("+".join(case["names"]), exiting))
    return problems


_PARK = {}


def cross_thread_check():
    """While ANOTHER thread sits inside an extract() call (parked in a hook of its own, with either option setting), a bare
    fill_context on this thread is still 'outside any extract': same result as ever.  Returns problems."""
    import threading
    stackscope = world()["stackscope"]
    if not _PARK:
        class Park(object):
            def __init__(s):
                s.entered = threading.Event()
                s.release = threading.Event()

        @stackscope.unwrap_stackitem.register(Park)
        def _(p):
            p.entered.set()
            p.release.wait(60)
            return None
        _PARK["Park"] = Park
    problems = []
    for opts in ({"with_contexts": False, "recurse_child_tasks": False}, {"with_contexts": True, "recurse_child_tasks": True}):
        park = _PARK["Park"]()
        th = threading.Thread(target=lambda: stackscope.extract(park, **opts))
        th.start()
        try:
            if not park.entered.wait(30):
                problems.append("harness: the other thread did not reach its hook")
                continue
            for case in COLD_CASES:
                for exiting in (False, True):
                    ref = reference(case, exiting)
                    got, log = run_bare(case, exiting)
                    problems += compare(ref, got, log, "another thread is inside extract(%r)/%s/exiting=%r" % (
                        sorted(opts.items()), "+".join(case["names"]), exiting))
        finally:
            park.release.set()
            th.join(60)
    return problems


def run(ctx):
    problems = cold_start_check()       # first: nothing has been extracted in this process yet
    ctx.count("evaluations", 2 * len(COLD_CASES))
    ctx.count("cold_start_checks")
    if problems:
        ctx.violation({"cold": True}, "; ".join(problems)[:1500], "cold")
    if ctx.shard == 0:
        xp = cross_thread_check()
        ctx.count("evaluations", 8)
        ctx.count("cross_thread_checks")
        if xp:
            ctx.violation({"cross_thread": True}, "; ".join(xp)[:1500], "crossthread")
    idx = 0
    states = set()
    for case in gen_cases(bounds(ctx.tier)["max_chain"]):
        idx += 1
        if not ctx.mine(idx):
            continue
        problems, stats = check_case(case)
        ctx.count("evaluations")
        ctx.count("distinct_nontrivial")
        ctx.count("transitions", stats[0])
        ctx.count("traces_validated_against_impl", 4 if case["names"][0][0] in "wf" else 2)
        states |= stats[1]
        if problems:
            c = dict(case)
            if c.get("long"):
                c = {"long": c["long"]}
            ctx.violation(c, "; ".join(problems)[:1500], problems[0].split(":")[1].strip().split(" ")[0] if ":" in problems[0] else "x")
        if idx % 499 == 0:
            ctx.sample(case)
    ctx.counters["states"] = len(states)


def replay(case):
    if case.get("cold"):
        return [{"detail": p} for p in cold_start_check()]
    if case.get("cross_thread"):
        return [{"detail": p} for p in cross_thread_check()]
    if "long" in case and "names" not in case:
        n = case["long"]
        case = {"names": ["w%d" % i for i in range(n + 1)], "elabs": ["desc"] * (n + 1), "last": None, "long": n}
    problems, _ = check_case(case)
    return [{"detail": p} for p in problems]
