"""C12 - customizations bind to exactly the code that runs; every customize option works.
(a) wrapper towers, (b) nested-name paths, (c) equal-but-distinct code objects, (d) customize flag product,
(e) IdentityDict vs a list-of-pairs model as an explicit-state search to a fixpoint.  3.9 compatible."""
import functools
import itertools
import sys
import types
import warnings

LEVEL = "model_checking"
RULE = ("(e) explicit-state BFS to a fixpoint: IdentityDict vs a list-of-pairs reference model over keys {k1, k2 (k1 == k2, "
        "distinct objects), k3} x values {0,1} x every MutableMapping operation (getitem, setitem, delitem, contains, get, pop "
        "with/without default, popitem, setdefault, update, clear, len, iter, keys/values/items, eq/ne, repr, constructor); a state "
        "is the ordered (key, value) list, every transition is executed on the real object. (a) every well-formed wrapper tower "
        "of depth <= D over {partial, wraps-wrapper, bound method, classmethod, staticmethod, class-attribute access}: "
        "get_code(tower) must be the code object recorded by the base function when the tower is called, and a registration "
        "through the tower must land on it. (b) every nesting path of depth <= 3 (thorough: 5; towers: D = 3 quick / 6 thorough) over {function, class, async function, lambda-free} "
        "with unique names. (c) pairs of equal-but-distinct code objects: registration affects only the registered one, the latest "
        "registration wins. (d) 2^3 flags x {no elaborate, returns None, returns replacement, returns PRUNE, returns []} x {direct, decorator, nested-name}. "
        "(each also observed through extract_outermost). (f) customize on the first of 2..4 sibling stack items handed over together by the hook of the frame outward of them: prune / replacement removes all of them. states/transitions count leg (e); evaluations counts all legs.")
ASSUMPTIONS = ["towers are well-formed: a raw classmethod/staticmethod object is only ever the outermost layer or accessed through its class"]


RULE += ' Round 9: 24 hook-independence cases (frame-side vs context-side registrations for one generator-based manager function).'


def legs(tier):
    from vlib.runner import Leg
    return [Leg(v, 1) for v in ("3.12", "3.11", "3.10", "3.9")]


def bounds(tier):
    return {"tower_depth": 3 if tier == "quick" else 6, "nesting_depth": 3 if tier == "quick" else 5}


# ------------------------------------------------------------------ (a) towers
RAN = []


def make_base():
    ns = {"RAN": RAN, "sys": sys}
    exec("def base(*a, **k):\n    RAN.append(sys._getframe().f_code)\n    return 1\n", ns)
    return ns["base"]


LAYERS = ["partial", "wraps", "method", "cm_attr", "sm_attr", "cm_raw", "sm_raw", "partialmethodlike"]


def apply_layer(layer, inner):
    """inner: a callable. Returns (new callable-ish object, invoker or None)."""
    if layer == "partial":
        return functools.partial(inner, 0)
    if layer == "wraps":
        @functools.wraps(inner)
        def wrapper(*a, **k):
            return inner(*a, **k)
        return wrapper
    if layer == "method":
        class Holder(object):
            pass
        return types.MethodType(inner, Holder())
    if layer == "cm_attr":
        class K(object):
            m = classmethod(inner)
        return K.m
    if layer == "sm_attr":
        class K2(object):
            m = staticmethod(inner)
        return K2.m
    if layer == "cm_raw":
        return classmethod(inner)
    if layer == "sm_raw":
        return staticmethod(inner)
    if layer == "partialmethodlike":
        # wrapper whose __wrapped__ is itself a partial
        p = functools.partial(inner, 1)

        def w2(*a, **k):
            return p(*a, **k)
        w2.__wrapped__ = p
        return w2
    raise AssertionError(layer)


def towers(depth):
    for d in range(0, depth + 1):
        for combo in itertools.product(LAYERS, repeat=d):
            # raw descriptors only outermost
            if any(l in ("cm_raw", "sm_raw") for l in combo[:-1]):
                continue
            # types.MethodType / classmethod need a function-like inner that accepts extra args: ours does
            yield list(combo)


def check_tower(combo):
    from stackscope.lowlevel import get_code
    import stackscope
    base = make_base()
    obj = base
    for layer in combo:
        obj = apply_layer(layer, obj)
    del RAN[:]
    top = combo[-1] if combo else None
    if top == "cm_raw":
        class K3(object):
            pass
        K3.m = obj
        K3.m()
    elif top == "sm_raw":
        class K4(object):
            pass
        K4.m = obj
        K4.m()
    else:
        obj()
    problems = []
    if len(RAN) != 1:
        return ["harness: base ran %d times" % len(RAN)]
    ran = RAN[0]
    try:
        got = get_code(obj)
    except Exception as ex:
        return ["get_code raised %r" % (ex,)]
    if got is not ran:
        problems.append("get_code resolved to %r, but the code that runs is %r" % (got, ran))
    # registration through the tower lands on the running code
    calls = []

    def hook(frame, next_inner):
        calls.append(frame)
        return None
    try:
        stackscope.elaborate_frame.register(obj, hook)
    except Exception as ex:
        problems.append("register through tower raised %r" % (ex,))
        return problems
    reg = stackscope.elaborate_frame.registry
    if ran not in reg or reg[ran] is not hook:
        problems.append("registration through the tower did not land on the running code object")
    return problems


# ------------------------------------------------------------------ (b) nested names
def nestings(depth):
    for d in range(1, depth + 1):
        for kinds in itertools.product(("def", "class", "async"), repeat=d):
            yield list(kinds)


def check_nesting(kinds):
    """outer function top() containing a chain of nested definitions n0..n(d-1); siblings with other names are added as decoys."""
    from stackscope.lowlevel import get_code
    lines = ["def top(REC):"]
    ind = 1
    names = []
    for i, k in enumerate(kinds):
        nm = "n%d" % i
        names.append(nm)
        pad = "    " * ind
        # decoy sibling with the same kind but different name, defined first and after
        lines.append(pad + "def decoy%d(): return %d" % (i, i))
        if k == "def":
            lines.append(pad + "def %s():" % nm)
            lines.append(pad + "    REC[%r] = sys._getframe().f_code" % nm)
        elif k == "async":
            lines.append(pad + "async def %s():" % nm)
            lines.append(pad + "    REC[%r] = sys._getframe().f_code" % nm)
        else:
            lines.append(pad + "class %s:" % nm)
            lines.append(pad + "    REC[%r] = sys._getframe().f_code" % nm)
        ind += 1
    # unwind: call/instantiate from inside out
    for i in reversed(range(len(kinds))):
        pad = "    " * (i + 1 + 1)
        k = kinds[i]
        # after defining inner things inside n_i's body, n_i's body ends. Add the call of n_i in parent's body:
        pad_parent = "    " * (i + 1)
        if k == "def":
            lines.append(pad_parent + "n%d()" % i)
        elif k == "async":
            lines.append(pad_parent + "_c = n%d()" % i)
            lines.append(pad_parent + "try:")
            lines.append(pad_parent + "    _c.send(None)")
            lines.append(pad_parent + "except StopIteration:")
            lines.append(pad_parent + "    pass")
        else:
            lines.append(pad_parent + "pass")
    # the above appends calls after all bodies, which breaks indentation order; build recursively instead
    src = build_nest(kinds)
    problems = []
    # the same source is compiled twice: two equal-but-distinct trees of code objects; each must resolve to its own
    for copy in (1, 2):
        ns = {"sys": sys}
        exec(compile(src, "<nest>", "exec"), ns)
        rec = {}
        ns["top"](rec)
        for i in range(len(kinds)):
            path = ["n%d" % j for j in range(i + 1)]
            want = rec.get("n%d" % i)
            if want is None:
                problems.append("harness: %s did not run" % path)
                continue
            try:
                got = get_code(ns["top"], *path)
            except Exception as ex:
                problems.append("get_code(top, %s) raised %r" % (path, ex))
                continue
            if got is not want:
                problems.append("copy %d of the source: get_code(top, %s) is %r, running code is %r" % (copy, path, got, want))
    # registration through each documented calling form of a code_dispatch function binds exactly that nested code
    # object (and nothing else): decorator form, positional non-decorator form, func= keyword form
    from stackscope.lowlevel import code_dispatch
    for form in ("decorator", "positional", "keyword"):
        @code_dispatch(lambda code: code)
        def hookfn(code):
            return "default"
        impls = {}
        for i in range(len(kinds)):
            path = ["n%d" % j for j in range(i + 1)]

            def impl(code, _i=i):
                return "impl%d" % _i
            impls[i] = impl
            try:
                if form == "decorator":
                    ret = hookfn.register(ns["top"], *path)(impl)
                elif form == "positional":
                    ret = hookfn.register(ns["top"], *(path + [impl]))
                else:
                    ret = hookfn.register(ns["top"], *path, func=impl)
            except Exception as ex:
                problems.append("%s-form register(top, %s) raised %r" % (form, path, ex))
                continue
            if ret is not impl:
                problems.append("%s-form register(top, %s) returned %r, not the implementation" % (form, path, ret))
        want_keys = dict((id(rec["n%d" % i]), i) for i in range(len(kinds)) if "n%d" % i in rec)
        got_keys = dict((id(k), v) for k, v in hookfn.registry.items())
        for cid, i in want_keys.items():
            if got_keys.get(cid) is not impls[i]:
                problems.append("%s-form register(top, n0..n%d, impl): that code object maps to %r" % (form, i, got_keys.get(cid)))
        extra = [k for k in hookfn.registry if id(k) not in want_keys]
        if extra:
            problems.append("%s-form registration also bound other code objects: %r" % (form, extra))
        for i in range(len(kinds)):
            c = rec.get("n%d" % i)
            if c is not None and hookfn(c) != "impl%d" % i:
                problems.append("%s-form: dispatch on n%d's code gives %r" % (form, i, hookfn(c)))
        if hookfn(ns["top"].__code__) != "default":
            problems.append("%s-form: dispatch on top's own code gives %r" % (form, hookfn(ns["top"].__code__)))
    try:
        get_code(ns["top"], "nope")
        problems.append("get_code with a wrong nested name did not raise")
    except ValueError:
        pass
    except Exception as ex:
        problems.append("get_code with a wrong nested name raised %r instead of ValueError" % (ex,))
    return problems, src


def build_nest(kinds):
    def body(i, ind):
        pad = "    " * ind
        out = []
        if i == len(kinds):
            return out
        k = kinds[i]
        nm = "n%d" % i
        out.append(pad + "def decoy%d(): return %d" % (i, i))
        if k in ("def", "async"):
            out.append(pad + ("async def " if k == "async" else "def ") + nm + "():")
            out.append(pad + "    REC[%r] = sys._getframe().f_code" % nm)
            out += body(i + 1, ind + 1)
            out.append(pad + "def after%d(): return %d" % (i, i))
            if k == "def":
                out.append(pad + "%s()" % nm)
            else:
                out.append(pad + "_c = %s()" % nm)
                out.append(pad + "try:")
                out.append(pad + "    _c.send(None)")
                out.append(pad + "except StopIteration:")
                out.append(pad + "    pass")
        else:
            out.append(pad + "class %s:" % nm)
            out.append(pad + "    REC[%r] = sys._getframe().f_code" % nm)
            out += body(i + 1, ind + 1)
            out.append(pad + "def after%d(): return %d" % (i, i))
        return out
    lines = ["def top(REC):"] + body(0, 1)
    return "\n".join(lines) + "\n"


# ------------------------------------------------------------------ (c),(d) customize
CSRC = '''
def g(box):
    return h(box)

def h(box):
    return box["probe"](box)
'''


def fresh_pair():
    ns1 = {}
    ns2 = {}
    code = compile(CSRC, "<cust>", "exec")
    exec(code, ns1)
    code2 = compile(CSRC, "<cust>", "exec")
    exec(code2, ns2)
    return ns1, ns2


def observe(ns, outermost=False):
    import stackscope
    box = {}

    def probe(box):
        fr = sys._getframe(0)
        while fr.f_code is not ns["g"].__code__:
            fr = fr.f_back
        with warnings.catch_warnings():
            warnings.simplefilter("ignore")
            if outermost:
                box["st"] = stackscope.extract_outermost(stackscope.StackSlice(outer=fr))
            else:
                box["st"] = stackscope.extract_since(fr)
        return 1
    box["probe"] = probe
    ns["g"](box)
    return box["st"]


def observe_pruned(ns):
    """like observe(), for a g whose callees are pruned: the probe runs but is not in the result"""
    return observe(ns)


def mk_repl():
    def repl_gen():
        yield 1
    r = repl_gen()
    next(r)
    return r


def customize_cases():
    for hide, hide_line, prune in itertools.product((False, True), repeat=3):
        for elab in ("none", "retnone", "replace", "retprune", "retempty"):
            for form in ("direct", "decorator", "nested"):
                yield {"hide": hide, "hide_line": hide_line, "prune": prune, "elab": elab, "form": form}


def check_customize(case):
    import stackscope
    ns1, ns2 = fresh_pair()
    problems = []
    if not (ns1["g"].__code__ == ns2["g"].__code__ and ns1["g"].__code__ is not ns2["g"].__code__):
        return ["harness: twin code objects are not equal-but-distinct"]
    calls = []
    repl = mk_repl()

    def elab(frame, next_inner):
        calls.append((frame, next_inner))
        if case["elab"] == "replace":
            return repl
        if case["elab"] == "retprune":
            return stackscope.PRUNE
        if case["elab"] == "retempty":
            return []
        return None
    kw = {"hide": case["hide"], "hide_line": case["hide_line"], "prune": case["prune"]}
    if case["elab"] != "none":
        kw["elaborate"] = elab
    if case["form"] == "direct":
        ret = stackscope.customize(ns1["g"], **kw)
        if ret is not ns1["g"]:
            problems.append("customize(target, ...) did not return the target")
    elif case["form"] == "decorator":
        dec = stackscope.customize(**kw)
        ret = dec(ns1["g"])
        if ret is not ns1["g"]:
            problems.append("decorator form did not return the function unchanged")
    else:
        # nested-name form: register on a function defined inside a maker
        mk = {}
        exec(compile("def maker():\n" + "\n".join("    " + l for l in CSRC.strip().split("\n")) + "\n    return g, h\n", "<cust>", "exec"), mk)
        g2, h2 = mk["maker"]()
        stackscope.customize(mk["maker"], "g", **kw)
        ns1 = {"g": g2, "h": h2}
        g2.__globals__["h"] = h2
    st = observe(ns1)
    names = [f.funcname for f in st.frames]
    f0 = st.frames[0]
    if f0.hide != case["hide"]:
        problems.append("hide=%r but Frame.hide is %r" % (case["hide"], f0.hide))
    if f0.hide_line != case["hide_line"]:
        problems.append("hide_line=%r but Frame.hide_line is %r" % (case["hide_line"], f0.hide_line))
    if case["elab"] != "none":
        if len(calls) != 1 or calls[0][0].pyframe is not f0.pyframe:
            problems.append("elaborate callback called %d times" % len(calls))
    if case["elab"] == "replace":
        if [f.pyframe for f in st.frames[1:]] != [repl.gi_frame]:
            problems.append("elaborate replacement not applied: frames %r" % (names,))
    elif case["elab"] in ("retprune", "retempty"):
        # the hook's own answer (remove the callees) stands whatever the prune flag says
        if names != ["g"]:
            problems.append("elaborate returned PRUNE/[] but callees present: %r" % (names,))
    elif case["prune"]:
        if names != ["g"]:
            problems.append("prune=True but callees present: %r" % (names,))
    else:
        if names[:3] != ["g", "h", "probe"]:
            problems.append("unexpected frames %r" % (names,))
    if st.error is not None:
        problems.append("error %r" % (st.error,))
    # the options also take effect on the frame handed out by extract_outermost()
    del calls[:]
    try:
        fo = observe(ns1, outermost=True)
    except Exception as ex:
        problems.append("extract_outermost raised %r" % (ex,))
    else:
        if fo.pyframe.f_code is not ns1["g"].__code__ or fo.hide != case["hide"] or fo.hide_line != case["hide_line"]:
            problems.append("extract_outermost: hide=%r hide_line=%r requested, frame %s has hide=%r hide_line=%r" % (
                case["hide"], case["hide_line"], fo.funcname, fo.hide, fo.hide_line))
        if case["elab"] != "none" and len(calls) != 1:
            problems.append("extract_outermost: elaborate callback called %d times" % len(calls))
    del calls[:]
    # the equal-but-distinct twin must be unaffected
    if case["form"] != "nested":
        st2 = observe(ns2)
        n2 = [f.funcname for f in st2.frames]
        if st2.frames[0].hide or st2.frames[0].hide_line or n2[:3] != ["g", "h", "probe"]:
            problems.append("frames of an equal-but-distinct code object were affected: hide=%r hide_line=%r frames=%r" % (
                st2.frames[0].hide, st2.frames[0].hide_line, n2))
        if len(calls) > 0:
            problems.append("elaborate callback ran for the twin code object")
    repl.close()
    return problems


def check_latest_wins():
    import stackscope
    problems = []
    ns1, ns2 = fresh_pair()
    log = []
    stackscope.elaborate_frame.register(ns1["g"], lambda f, n: log.append("first"))
    stackscope.elaborate_frame.register(ns1["g"], lambda f, n: log.append("second"))
    stackscope.elaborate_frame.register(ns2["g"], lambda f, n: log.append("twin"))
    observe(ns1)
    if log != ["second"]:
        problems.append("latest registration does not win / twin leaked: %r" % (log,))
    del log[:]
    observe(ns2)
    if log != ["twin"]:
        problems.append("registration on the twin: %r" % (log,))
    # a customize() call with every option at its default is a registration like any other: it replaces what was there
    ns3, ns4 = fresh_pair()
    stackscope.customize(ns3["g"], hide=True, hide_line=True, prune=True)
    st = observe_pruned(ns3)
    if not (st.frames[0].hide and st.frames[0].hide_line and [f.funcname for f in st.frames] == ["g"]):
        problems.append("setup: customize(hide, hide_line, prune) had no effect")
    stackscope.customize(ns3["g"])
    st = observe(ns3)
    if st.frames[0].hide or st.frames[0].hide_line or [f.funcname for f in st.frames][:3] != ["g", "h", "probe"]:
        problems.append("customize(f) with default options did not replace the earlier registration: hide=%r hide_line=%r frames=%r" % (
            st.frames[0].hide, st.frames[0].hide_line, [f.funcname for f in st.frames]))
    stackscope.elaborate_frame.register(ns4["g"], lambda f, n: setattr(f, "hide", True))
    stackscope.customize(ns4["g"], hide=False)
    if observe(ns4).frames[0].hide:
        problems.append("customize(f, hide=False) did not replace an elaborate_frame.register hook")
    dec = stackscope.customize()
    stackscope.customize(ns4["g"], prune=True)
    dec(ns4["g"])
    if [f.funcname for f in observe(ns4).frames][:3] != ["g", "h", "probe"]:
        problems.append("decorator form with default options did not replace the earlier prune registration")
    # dispatch on a frame of unrelated code returns the default implementation
    # registry is keyed by identity
    reg = stackscope.elaborate_frame.registry
    if ns1["g"].__code__ not in reg or ns2["g"].__code__ not in reg:
        problems.append("registry membership")
    return problems


def check_hook_independence():
    """elaborate_frame/customize and unwrap_context_generator are separate dispatchers: registrations for the SAME
    generator-based manager function, in either order, each apply to their own hook and to no other."""
    import contextlib
    import stackscope
    problems = []

    class Inner(object):
        def __enter__(s):
            return s

        def __exit__(s, *exc):
            return False

    SRC = "def managed():\n    inner = Inner()\n    with inner:\n        yield inner\n"

    def fresh():
        # registrations are keyed by code object: every case gets a code object of its own
        ns = {"Inner": Inner}
        exec(compile(SRC, "<c12 managed>", "exec"), ns)
        return contextlib.contextmanager(ns["managed"])

    def user(managed):
        with managed():
            return stackscope.extract_since(sys._getframe(0))

    def look(managed):
        gen = managed.__wrapped__()
        next(gen)
        try:
            st = stackscope.extract(gen)
        finally:
            gen.close()
        ctx = user(managed).frames[0].contexts[0]
        return st, ctx

    def unwrapper(frame, context):
        return frame.pyframe.f_locals["inner"]
    options = ({"hide": True}, {"hide_line": True}, {"prune": True}, {"hide": True, "hide_line": True, "prune": True})
    for opts in options:
        for order in ("customize-first", "unwrap-first", "customize-only", "unwrap-only", "elaborate-first", "elaborate-last"):
            m = fresh()
            tag = "%s %r" % (order, sorted(opts))
            seen = []

            def elab(frame, next_inner):
                seen.append(frame.funcname)
                for k in ("hide", "hide_line"):
                    if opts.get(k):
                        setattr(frame, k, True)
                return stackscope.PRUNE if opts.get("prune") else None
            if order == "customize-first":
                stackscope.customize(m, **opts)
                stackscope.unwrap_context_generator.register(m, unwrapper)
            elif order == "unwrap-first":
                stackscope.unwrap_context_generator.register(m, unwrapper)
                stackscope.customize(m, **opts)
            elif order == "customize-only":
                stackscope.customize(m, **opts)
            elif order == "unwrap-only":
                stackscope.unwrap_context_generator.register(m, unwrapper)
            elif order == "elaborate-first":
                stackscope.elaborate_frame.register(m, elab)
                stackscope.unwrap_context_generator.register(m, unwrapper)
            else:
                stackscope.unwrap_context_generator.register(m, unwrapper)
                stackscope.elaborate_frame.register(m, elab)
            with warnings.catch_warnings():
                warnings.simplefilter("ignore")
                st, ctx = look(m)
            has_frame_side = order != "unwrap-only"
            has_ctx_side = order != "customize-only"
            if st.error is not None or [f.funcname for f in st.frames] != ["managed"] or st.leaf is not None:
                problems.append("%s: extract(generator) is %r" % (tag, st))
                continue
            f0 = st.frames[0]
            if (f0.hide, f0.hide_line) != (bool(opts.get("hide")) and has_frame_side, bool(opts.get("hide_line")) and has_frame_side):
                problems.append("%s: frame flags hide=%r hide_line=%r" % (tag, f0.hide, f0.hide_line))
            if has_ctx_side:
                if not isinstance(ctx.obj, Inner) or ctx.hide:
                    problems.append("%s: the unwrap_context_generator registration did not apply (obj=%r hide=%r)" % (tag, ctx.obj, ctx.hide))
            else:
                if isinstance(ctx.obj, Inner) or ctx.hide or ctx.inner_stack is None or [f.funcname for f in ctx.inner_stack.frames] != ["managed"]:
                    problems.append("%s: a frame-side registration leaked into the context side (obj=%r hide=%r inner=%r)" % (tag, ctx.obj, ctx.hide, ctx.inner_stack))
    return problems


def check_sibling_items():
    """customize options on a frame whose callees are SEVERAL stack items handed over together (by a hook of the frame
    outward of it): prune / an elaborate replacement must remove all of them, whatever their number."""
    import stackscope
    problems = []

    def mkgen(name):
        ns = {}
        exec("def %s():\n    yield 1\n" % name, ns)
        g = ns[name]()
        next(g)
        return ns[name], g
    for nsib in (2, 3, 4):
        for mode in ("prune", "prune+elab-none", "replace"):
            for form in ("direct", "decorator"):
                runner_fn, runner = mkgen("runner")
                sibs = [mkgen("sib%d" % i) for i in range(nsib)]
                other_fn, other = mkgen("other")
                stackscope.customize(runner_fn, elaborate=lambda frame, nxt, sibs=sibs: [g for _, g in sibs])
                kw = {}
                if mode == "prune":
                    kw = {"prune": True}
                elif mode == "prune+elab-none":
                    kw = {"prune": True, "elaborate": lambda frame, nxt: None}
                else:
                    kw = {"elaborate": lambda frame, nxt, other=other: other}
                if form == "direct":
                    stackscope.customize(sibs[0][0], hide=True, **kw)
                else:
                    stackscope.customize(hide=True, **kw)(sibs[0][0])
                with warnings.catch_warnings():
                    warnings.simplefilter("ignore")
                    st = stackscope.extract(runner)
                names = [f.funcname for f in st.frames]
                want = ["runner", "sib0"] + (["other"] if mode == "replace" else [])
                if names != want or st.error is not None or not st.frames[1].hide:
                    problems.append("%d sibling items, %s (%s form): frames %r expected %r, hide %r, error %r" % (
                        nsib, mode, form, names, want, [f.hide for f in st.frames], st.error))
                for _, g in sibs + [(None, runner), (None, other)]:
                    g.close()
    return problems


# ------------------------------------------------------------------ (e) IdentityDict model checking
class EqKey(object):
    def __init__(self, name, token):
        self.name = name
        self.token = token

    def __eq__(self, other):
        return isinstance(other, EqKey) and self.token == other.token

    def __hash__(self):
        return hash(self.token)

    def __repr__(self):
        return self.name


def identitydict_search(ctx):
    from stackscope.lowlevel import IdentityDict
    k1 = EqKey("k1", 1)
    k2 = EqKey("k2", 1)
    k3 = EqKey("k3", 3)
    KEYS = [k1, k2, k3]
    assert k1 == k2 and k1 is not k2
    VALS = [0, 1]
    MISSING = object()

    def build(state):
        return IdentityDict([(k, v) for k, v in state])

    def model_get(state, k):
        for kk, v in state:
            if kk is k:
                return v
        return MISSING

    def model_set(state, k, v):
        out = []
        found = False
        for kk, vv in state:
            if kk is k:
                out.append((kk, v))
                found = True
            else:
                out.append((kk, vv))
        if not found:
            out.append((k, v))
        return tuple(out)

    def model_del(state, k):
        return tuple((kk, vv) for kk, vv in state if kk is not k)

    def same_items(d, state):
        got = list(d.items())
        if len(got) != len(state) or len(d) != len(state):
            return False
        ids = sorted((id(k), v) for k, v in got)
        return ids == sorted((id(k), v) for k, v in state)

    def canon(d):
        return tuple((k, v) for k, v in d.items())

    ops = []
    for k in KEYS:
        ops.append(("getitem", k))
        ops.append(("contains", k))
        ops.append(("get", k))
        ops.append(("delitem", k))
        ops.append(("pop", k))
        ops.append(("popdefault", k))
        for v in VALS:
            ops.append(("setitem", k, v))
            ops.append(("setdefault", k, v))
            ops.append(("update", k, v))
    ops += [("popitem",), ("clear",), ("len",), ("iter",), ("views",), ("eqcopy",), ("eqother",), ("repr",), ("eqdict",)]

    seen = set()
    init = ()
    frontier = [init]
    seen.add(tuple((id(k), v) for k, v in init))
    nstates = 0
    ntrans = 0
    problems = []
    sample = []
    while frontier:
        state = frontier.pop(0)
        nstates += 1
        for op in ops:
            d = build(state)
            if not same_items(d, state):
                problems.append(("constructor", state))
                continue
            ntrans += 1
            name = op[0]
            new = state
            ok = True
            try:
                if name == "getitem":
                    exp = model_get(state, op[1])
                    try:
                        r = d[op[1]]
                        ok = exp is not MISSING and r == exp
                    except KeyError:
                        ok = exp is MISSING
                elif name == "contains":
                    ok = (op[1] in d) == (model_get(state, op[1]) is not MISSING)
                elif name == "get":
                    exp = model_get(state, op[1])
                    r = d.get(op[1], "dflt")
                    ok = r == ("dflt" if exp is MISSING else exp)
                elif name == "delitem":
                    exp = model_get(state, op[1])
                    try:
                        del d[op[1]]
                        ok = exp is not MISSING
                        new = model_del(state, op[1])
                    except KeyError:
                        ok = exp is MISSING
                elif name == "pop":
                    exp = model_get(state, op[1])
                    try:
                        r = d.pop(op[1])
                        ok = exp is not MISSING and r == exp
                        new = model_del(state, op[1])
                    except KeyError:
                        ok = exp is MISSING
                elif name == "popdefault":
                    exp = model_get(state, op[1])
                    r = d.pop(op[1], "dflt")
                    ok = r == ("dflt" if exp is MISSING else exp)
                    new = model_del(state, op[1])
                elif name == "setitem":
                    d[op[1]] = op[2]
                    new = model_set(state, op[1], op[2])
                elif name == "setdefault":
                    exp = model_get(state, op[1])
                    r = d.setdefault(op[1], op[2])
                    if exp is MISSING:
                        ok = r == op[2]
                        new = model_set(state, op[1], op[2])
                    else:
                        ok = r == exp
                elif name == "update":
                    d.update([(op[1], op[2])])
                    new = model_set(state, op[1], op[2])
                elif name == "popitem":
                    try:
                        k, v = d.popitem()
                        ok = bool(state) and model_get(state, k) == v and any(kk is k for kk, _ in state)
                        new = model_del(state, k)
                    except KeyError:
                        ok = not state
                elif name == "clear":
                    d.clear()
                    new = ()
                elif name == "len":
                    ok = len(d) == len(state)
                elif name == "iter":
                    ok = sorted(id(k) for k in d) == sorted(id(k) for k, _ in state)
                elif name == "views":
                    ok = (sorted(id(k) for k in d.keys()) == sorted(id(k) for k, _ in state)
                          and sorted(d.values()) == sorted(v for _, v in state))
                elif name == "eqcopy":
                    ok = (d == build(state)) and not (d != build(state))
                elif name == "eqother":
                    # differs from a dict with one more / one changed entry
                    other = build(model_set(state, k3, 1 if model_get(state, k3) != 1 else 0))
                    ok = not (d == other)
                    if model_get(state, k1) is not MISSING and model_get(state, k2) is MISSING:
                        # same shape but keyed by the equal twin: must NOT be equal (identity semantics)
                        swapped = build(tuple(((k2 if kk is k1 else kk), vv) for kk, vv in state))
                        ok = ok and not (d == swapped)
                elif name == "repr":
                    ok = repr(d).startswith("IdentityDict([")
                elif name == "eqdict":
                    ok = True
                    _ = (d == dict())
            except Exception as ex:  # noqa
                ok = False
                problems.append((op, state, "raised %r" % (ex,)))
                continue
            if ok and not same_items(d, new):
                ok = False
            if not ok:
                problems.append((op, state, "result/state mismatch: impl items %r, model %r" % (list(d.items()), new)))
                continue
            key = tuple((id(k), v) for k, v in canon(d))
            if key not in seen:
                seen.add(key)
                frontier.append(canon(d))
                if len(sample) < 3:
                    sample.append({"leg": "identitydict", "state": repr(canon(d)), "via": repr(op)})
    ctx.count("states", nstates)
    ctx.count("transitions", ntrans)
    ctx.count("traces_validated_against_impl", ntrans)
    ctx.count("evaluations", ntrans)
    ctx.count("distinct_nontrivial", nstates)
    for s in sample:
        ctx.sample(s)
    for pr in problems[:10]:
        ctx.violation({"leg": "identitydict", "op": repr(pr[0]), "state": repr(pr[1])}, repr(pr)[:800], "identitydict")


def run(ctx):
    b = bounds(ctx.tier)
    identitydict_search(ctx)
    for combo in towers(b["tower_depth"]):
        problems = check_tower(combo)
        ctx.count("towers")
        ctx.count("evaluations")
        ctx.count("distinct_nontrivial")
        if problems:
            ctx.violation({"leg": "tower", "layers": combo}, "; ".join(problems)[:1000], "tower")
    ctx.sample({"leg": "tower", "layers": ["wraps", "partial", "cm_attr"]})
    for kinds in nestings(b["nesting_depth"]):
        problems, src = check_nesting(kinds)
        ctx.count("nestings")
        ctx.count("evaluations")
        ctx.count("distinct_nontrivial")
        if problems:
            ctx.violation({"leg": "nest", "kinds": kinds}, "; ".join(problems)[:1000], "nest")
    for case in customize_cases():
        problems = check_customize(case)
        ctx.count("customize_cases")
        ctx.count("evaluations")
        ctx.count("distinct_nontrivial")
        if problems:
            c = dict(case)
            c["leg"] = "customize"
            ctx.violation(c, "; ".join(problems)[:1000], "customize:" + problems[0].split(" ")[0])
    problems = check_latest_wins()
    ctx.count("evaluations")
    if problems:
        ctx.violation({"leg": "latest"}, "; ".join(problems), "latest")
    problems = check_hook_independence()
    ctx.count("evaluations", 24)
    ctx.count("hook_independence_cases", 24)
    if problems:
        ctx.violation({"leg": "independence"}, "; ".join(problems)[:1500], "independence")
    problems = check_sibling_items()
    ctx.count("evaluations", 18)
    ctx.count("sibling_item_cases", 18)
    if problems:
        ctx.violation({"leg": "siblings"}, "; ".join(problems)[:1500], "siblings")


def replay(case):
    leg = case.get("leg")
    if leg == "tower":
        return [{"detail": p} for p in check_tower(case["layers"])]
    if leg == "nest":
        return [{"detail": p} for p in check_nesting(case["kinds"])[0]]
    if leg == "customize":
        return [{"detail": p} for p in check_customize(case)]
    if leg == "latest":
        return [{"detail": p} for p in check_latest_wins()]
    if leg == "independence":
        return [{"detail": p} for p in check_hook_independence()]
    if leg == "siblings":
        return [{"detail": p} for p in check_sibling_items()]

    class C(object):
        def __init__(s):
            s.v = []

        def count(s, *a):
            pass

        def sample(s, *a):
            pass

        def violation(s, case, detail, sig):
            s.v.append({"detail": detail})
    c = C()
    identitydict_search(c)
    return c.v
