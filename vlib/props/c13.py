"""C13 - extraction options are scoped to their call tree and thread; stubs honoured.
Sequential: every well-nested script (bounded size) of extract / extract_child / fill_context /
extract_outermost calls made from inside hooks, with every option combination and hooks that raise;
reference = a stack of option pairs.  Concurrent: schedule exploration (E3) of 2-3 threads running such
scripts with every line of ExtractOptions.push and every hook boundary a scheduling point.  3.9 compatible."""
import itertools
import sys
import threading
import warnings

LEVEL = "model_checking"
RULE = ("Sequential: all ordered trees with <= N nodes over node kinds {extract(wc, rc) x raises?, extract_child(for_task) x "
        "raises?, extract_outermost(wc, rc) x raises?, fill_context (elaborate_context hook), fill_context of a generator-based manager, exiting or not (unwrap_context_generator hook; for the exiting one the glue performs a nested frame lookup first), a look from inside a fresh contextvars.Context on the same thread (same options), a look from another thread running in a copy of this thread's contextvars context (must be 'outside')}; each node is executed from inside the unwrap hook of its "
        "parent (the root from outside any extraction); before/after every child the hook records what is visible through the "
        "public API: (contexts present on a probe frame, extract_child(for_task=True) populated) or 'outside' when extract_child "
        "refuses. Reference model: a stack of option pairs (state = stack contents, transition = one node entry/exit). "
        "Concurrent: 2-3 threads (thorough: also 4 threads with <= 1 preemption) each running a script, all schedules with <= B preemptions (B = 2 quick, 3 thorough), scheduling points at every line of "
        "ExtractOptions.push and at every observation; each thread's observation log must equal its sequential reference.")
ASSUMPTIONS = ["observations go only through the public API (extract_child results, Frame.contexts)",
               "interleavings at source-line granularity of ExtractOptions.push plus hook boundaries"]


def legs(tier):
    from vlib.runner import Leg
    out = []
    n = 3 if tier == "quick" else 8
    for v in ("3.12", "3.11", "3.10", "3.9"):
        out.append(Leg(v, n, args={"leg": "seq"}, name=v + "-seq"))
    for v in ("3.12", "3.9"):
        out.append(Leg(v, 3 if tier == "quick" else 6, args={"leg": "conc"}, name=v + "-conc"))
    return out


def bounds(tier):
    return {"max_nodes": 3 if tier == "quick" else 4, "preemption_bound": 2 if tier == "quick" else 3}


_W = {}


class Boom(Exception):
    pass


def world():
    if _W:
        return _W
    import stackscope
    from stackscope import Context

    class M(object):
        def __enter__(s):
            return s

        def __exit__(s, *a):
            return False

    def probe_gen():
        with M():
            yield 1

    class Node(object):
        def __init__(s, children, raises, rec):
            s.children = children
            s.raises = raises
            s.rec = rec

    class FW(object):
        def __init__(s, rec):
            s.rec = rec

        def __enter__(s):
            return s

        def __exit__(s, *a):
            return False

    tl = threading.local()

    def get_probe():
        p = getattr(tl, "probe", None)
        if p is None:
            p = probe_gen()
            next(p)
            tl.probe = p
        return p

    def see(rec):
        """what the options look like from here, through the public API only"""
        if rec.get("gate"):
            rec["gate"]("see")
        p = get_probe()
        try:
            a = stackscope.extract_child(p, for_task=False)
        except RuntimeError:
            return "outside"
        b = stackscope.extract_child(p, for_task=True)
        wc = bool(a.frames and a.frames[0].contexts)
        rc = bool(b.frames)
        if not a.frames or a.frames[0].pyframe is not p.gi_frame:
            rec["problems"].append("extract_child(for_task=False) did not return the probe's frame")
        elif a.frames[0].origin is not p or a.frames[0].lineno != p.gi_frame.f_lineno or a.frames[0].hide:
            # whatever the options in force, the frame record itself is the same (only its contexts may be left empty)
            rec["problems"].append("frame record depends on the options in force (%r): origin %r lineno %r hide %r" % (
                (wc, rc), a.frames[0].origin, a.frames[0].lineno, a.frames[0].hide))
        if not rc:
            if b.root is not p or b.leaf is not None or b.error is not None or list(b.frames):
                rec["problems"].append("stub is not a frameless Stack carrying only root: %r" % (b,))
        else:
            if [f.pyframe for f in b.frames] != [p.gi_frame]:
                rec["problems"].append("populated child stack has wrong frames")
            if bool(b.frames[0].contexts) != wc:
                rec["problems"].append("with_contexts not inherited by extract_child(for_task=True)")
        return (wc, rc)

    def run_children(children, rec):
        for ch in children:
            run_node(ch, rec)
            rec["log"].append(("after", see(rec)))

    def run_node(node, rec):
        kind = node[0]
        p = get_probe()
        with warnings.catch_warnings():
            warnings.simplefilter("ignore")
            if kind == "E":
                _, wc, rc, raises, children = node
                st = stackscope.extract(Node(children, raises, rec), with_contexts=wc, recurse_child_tasks=rc)
                check_result(st, raises, wc, rec, "extract")
            elif kind == "C":
                _, for_task, raises, children = node
                try:
                    st = stackscope.extract_child(Node(children, raises, rec), for_task=for_task)
                    rec["log"].append(("child-returned", bool(st.frames) or st.error is not None or st.leaf is not None))
                except RuntimeError:
                    rec["log"].append(("child-refused",))
            elif kind == "O":
                _, wc, rc, raises, children = node
                try:
                    fr = stackscope.extract_outermost(Node(children, raises, rec), with_contexts=wc, recurse_child_tasks=rc)
                    if raises:
                        rec["problems"].append("extract_outermost did not raise although the hook raised")
                    elif bool(fr.contexts) != wc or fr.pyframe is not p.gi_frame:
                        rec["problems"].append("extract_outermost frame wrong (contexts %r, wc %r)" % (fr.contexts, wc))
                except Boom:
                    if not raises:
                        rec["problems"].append("extract_outermost raised Boom unexpectedly")
            elif kind == "F":
                c = Context(obj=FW(rec), is_async=False)
                stackscope.fill_context(c)
            elif kind == "V":
                # the same thread, but another contextvars.Context (what a callback scheduled through an event loop, or
                # another greenlet, runs in): the options are the thread's, so nothing changes
                import contextvars
                rec["log"].append(("ctx", contextvars.Context().run(see, rec)))
            elif kind == "T":
                # another thread that runs in a COPY of this thread's contextvars context (the to_thread pattern): the
                # options are scoped to the extracting thread only
                import contextvars
                out = []
                cctx = contextvars.copy_context()
                rec2 = {"log": [], "problems": rec["problems"], "gate": None}
                th = threading.Thread(target=lambda: out.append(cctx.run(see, rec2)))
                th.start()
                th.join(30)
                rec["log"].append(("thread", out[0] if out else "no answer"))
            elif kind == "G":
                # a generator-based manager whose function has an unwrap_context_generator hook; when the context is
                # exiting the contextlib glue has to look the manager's frame up by itself before it can call the hook
                mgr = gcm_fn()
                mgr.__enter__()
                tl.rec = rec
                try:
                    stackscope.fill_context(Context(obj=mgr, is_async=False, is_exiting=node[1]))
                finally:
                    tl.rec = None
                    mgr.__exit__(None, None, None)
            else:
                raise AssertionError(kind)

    def check_result(st, raises, wc, rec, what):
        p = get_probe()
        if raises:
            if not isinstance(st.error, Boom):
                rec["problems"].append("%s: hook raised but error is %r" % (what, st.error))
        else:
            if st.error is not None:
                rec["problems"].append("%s: unexpected error %r" % (what, st.error))
            if [f.pyframe for f in st.frames] != [p.gi_frame]:
                rec["problems"].append("%s: frames %r" % (what, st.frames))
            elif bool(st.frames[0].contexts) != wc:
                rec["problems"].append("%s: with_contexts=%r but contexts=%r" % (what, wc, st.frames[0].contexts))

    @stackscope.unwrap_stackitem.register(Node)
    def _unwrap_node(node):
        rec = node.rec
        rec["log"].append(("enter", see(rec)))
        run_children(node.children, rec)
        if node.raises:
            raise Boom("hook raises")
        return get_probe()

    import contextlib

    @contextlib.contextmanager
    def gcm_fn():
        yield 1

    @stackscope.unwrap_context_generator.register(gcm_fn)
    def _ucg(frame, context):
        rec = tl.rec
        rec["log"].append(("ucg", see(rec)))
        return None

    @stackscope.elaborate_context.register(FW)
    def _elab_fw(mgr, context):
        mgr.rec["log"].append(("fill", see(mgr.rec)))

    def run_script(script, gate=None):
        rec = {"log": [], "problems": [], "gate": gate}
        rec["log"].append(("top", see(rec)))
        run_children(script, rec)
        return rec
    _W.update(dict(run_script=run_script, stackscope=stackscope))
    return _W


# ------------------------------------------------------------------ reference
def reference(script):
    log = []
    stack = []
    states = set()
    ntrans = [0]

    def top():
        return stack[-1] if stack else "outside"

    def children(chs):
        for ch in chs:
            node(ch)
            log.append(("after", top()))

    def enter_hook(chs):
        log.append(("enter", top()))
        children(chs)

    def node(n):
        ntrans[0] += 1
        states.add(tuple(stack))
        kind = n[0]
        if kind in ("E", "O"):
            _, wc, rc, raises, chs = n
            stack.append((wc, rc))
            states.add(tuple(stack))
            enter_hook(chs)
            stack.pop()
        elif kind == "C":
            _, for_task, raises, chs = n
            if not stack:
                log.append(("child-refused",))
                return
            if for_task and not stack[-1][1]:
                log.append(("child-returned", False))  # stub: hook not run
                return
            enter_hook(chs)
            # result has frames unless the hook raised (then it has an error): either way "something"
            log.append(("child-returned", True))
        elif kind == "F":
            if stack:
                log.append(("fill", top()))
            else:
                stack.append((True, False))
                log.append(("fill", top()))
                stack.pop()
        elif kind == "V":
            log.append(("ctx", top()))
        elif kind == "T":
            log.append(("thread", "outside"))
        elif kind == "G":
            if stack:
                log.append(("ucg", top()))
            else:
                stack.append((True, False))
                log.append(("ucg", top()))
                stack.pop()
    log.append(("top", top()))
    children(script)
    return log, states, ntrans[0]


# ------------------------------------------------------------------ enumeration
def node_kinds(tier):
    ks = []
    opts = list(itertools.product((False, True), repeat=2))
    if tier == "quick":
        for wc, rc in opts:
            ks.append(("E", wc, rc, False))
        ks.append(("E", True, False, True))
        ks.append(("E", False, True, True))
        ks += [("C", False, False), ("C", True, False), ("C", True, True)]
        ks += [("O", False, True, False), ("O", True, False, True)]
        ks.append(("F",))
        ks.append(("G", True))
        ks += [("V",), ("T",)]
    else:
        for wc, rc in opts:
            ks.append(("E", wc, rc, False))
        ks.append(("E", False, True, True))
        ks += [("C", False, False), ("C", True, False), ("C", True, True)]
        ks += [("O", False, True, False), ("O", True, False, True)]
        ks.append(("F",))
        ks += [("G", False), ("G", True)]
        ks += [("V",), ("T",)]
    return ks


def forests(n, kinds):
    """all ordered forests with exactly n nodes"""
    if n == 0:
        yield []
        return
    for first_size in range(1, n + 1):
        for k in kinds:
            if k[0] in ("F", "G", "V", "T"):
                if first_size != 1:
                    continue
                subs = [[]]
            else:
                subs = forests(first_size - 1, kinds)
            for sub in subs:
                first = list(k) + [sub] if k[0] not in ("F", "G", "V", "T") else list(k)
                for rest in forests(n - first_size, kinds):
                    yield [first] + rest


def run_seq(ctx):
    W = world()
    b = bounds(ctx.tier)
    kinds = node_kinds(ctx.tier)
    idx = 0
    states = set()
    for n in range(1, b["max_nodes"] + 1):
        for script in forests(n, kinds):
            idx += 1
            if not ctx.mine(idx):
                continue
            ref, st, nt = reference(script)
            states |= st
            rec = W["run_script"](script)
            ctx.count("evaluations")
            ctx.count("distinct_nontrivial")
            ctx.count("transitions", nt)
            ctx.count("traces_validated_against_impl")
            problems = list(rec["problems"])
            if rec["log"] != ref:
                problems.append("observation log %r, reference %r" % (rec["log"], ref))
            if problems:
                ctx.violation({"leg": "seq", "script": script}, "; ".join(problems)[:1500], "seq")
                if W["run_script"]([])["log"][0] != ("top", "outside"):
                    # options leaked out of the extraction: every later script in this process would start
                    # from a polluted state, so stop judging here (the first failure is the reproducible one)
                    ctx.exhaustive = False
                    ctx.count("aborted_after_option_leak")
                    ctx.counters["states"] = len(states)
                    return
            if idx % 4999 == 0:
                ctx.sample({"leg": "seq", "script": script})
    ctx.counters["states"] = len(states)


# ------------------------------------------------------------------ concurrent
CONC = [
    # list of scripts, one per thread
    [[["E", False, False, False, [["F"]]]], [["E", True, True, False, [["C", True, False, []]]]]],
    [[["E", True, False, False, [["E", False, True, True, []]]]], [["E", False, True, False, []]], [["F"]]],
    [[["O", True, False, True, []], ["C", False, False, []]], [["E", True, True, False, [["F"]]]]],
    [[["E", False, False, True, [["C", False, False, []]]]], [["E", True, True, False, [["E", False, False, False, []]]]]],
    [[["F"]], [["E", False, True, False, [["F"]]]]],
    [[["E", True, True, False, []]], [["E", False, False, False, []]], [["E", True, False, False, []]]],
    # four threads (explored with at most one preemption, thorough tier only)
    [[["E", True, True, False, [["F"]]]], [["E", False, False, False, [["C", True, False, []]]]], [["E", True, False, True, []]], [["F"], ["C", False, False, []]]],
]
FOUR_THREAD_SCENARIOS = (6,)


def option_codes(X):
    """Code objects of every method of the options holder (whatever shape it has: generator-based context manager,
    __enter__/__exit__ pair, ...): each of their lines is a scheduling point."""
    import types as _t
    out = []
    for name, val in vars(X.ExtractOptions).items():
        f = getattr(val, "__wrapped__", val)
        f = getattr(f, "__func__", f)
        code = getattr(f, "__code__", None)
        if code is not None:
            todo = [code]
            while todo:
                c = todo.pop()
                out.append(c)
                todo += [k for k in c.co_consts if isinstance(k, _t.CodeType)]
    return out


def run_conc(ctx):
    from vlib import schedx
    import stackscope._extract as X
    W = world()
    bound = bounds(ctx.tier)["preemption_bound"]
    push_codes = option_codes(X)
    for si, scripts in enumerate(CONC):
        if not ctx.mine(si):
            continue
        sbound = bound
        if si in FOUR_THREAD_SCENARIOS:
            if ctx.tier == "quick":
                continue
            sbound = 1
        refs = [reference(s)[0] for s in scripts]
        results = {}

        def make():
            s = schedx.Sched(trace_codes=push_codes)
            results.clear()

            def mk(i):
                def body(tc):
                    rec = W["run_script"](scripts[i], gate=lambda label: s.point(("gate", tc.name, label)))
                    results[i] = rec
                return body
            for i in range(len(scripts)):
                s.add("T%d" % i, mk(i))
            return s

        def check(s, ex):
            problems = []
            for tc in s.threads:
                if tc.exc is not None:
                    problems.append("thread %s raised %r" % (tc.name, tc.exc))
            for i in range(len(scripts)):
                rec = results.get(i)
                if rec is None:
                    continue
                problems += ["T%d: %s" % (i, p) for p in rec["problems"]]
                if rec["log"] != refs[i]:
                    problems.append("T%d observed %r, sequential reference %r" % (i, rec["log"], refs[i]))
            return problems

        def outcome(s, ex):
            return tuple(tuple(map(repr, results[i]["log"])) if i in results else None for i in range(len(scripts)))
        res = schedx.explore(make, check, sbound, on_exec=outcome)
        ctx.count("schedules", res["executions"])
        ctx.count("evaluations", res["executions"])
        ctx.count("traces_validated_against_impl", res["executions"])
        ctx.count("transitions", res["points"])
        ctx.count("states", res["points"])
        ctx.count("distinct_nontrivial", res["executions"])
        ctx.sample({"leg": "conc", "scenario": si, "scripts": scripts, "schedules": res["executions"], "points": res["points"], "bound": sbound})
        for choices, problems in res["violations"]:
            ctx.violation({"leg": "conc", "scenario": si, "choices": choices}, "; ".join(problems)[:1500], "conc")


def run(ctx):
    if ctx.args.get("leg") == "conc":
        run_conc(ctx)
    else:
        run_seq(ctx)


def replay(case):
    W = world()
    if case.get("leg") == "seq":
        ref, st, nt = reference(case["script"])
        rec = W["run_script"](case["script"])
        problems = list(rec["problems"])
        if rec["log"] != ref:
            problems.append("observation log %r, reference %r" % (rec["log"], ref))
        return [{"detail": p} for p in problems]
    from vlib import schedx
    import stackscope._extract as X
    scripts = CONC[case["scenario"]]
    refs = [reference(s)[0] for s in scripts]
    results = {}
    s = schedx.Sched(trace_codes=option_codes(X))

    def mk(i):
        def body(tc):
            results[i] = W["run_script"](scripts[i], gate=lambda label: s.point(("gate", tc.name, label)))
        return body
    for i in range(len(scripts)):
        s.add("T%d" % i, mk(i))
    ex = s.run(tuple(case["choices"]))
    if ex.diverged:
        raise schedx.HarnessError(ex.diverged)
    out = []
    for i in range(len(scripts)):
        rec = results.get(i)
        if rec is not None and (rec["problems"] or rec["log"] != refs[i]):
            out.append({"detail": "T%d observed %r, reference %r, problems %r" % (i, rec["log"], refs[i], rec["problems"])})
    return out
