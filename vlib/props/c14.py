"""C14 - Trio: the extracted tree is isomorphic to the real task tree, across thread hops.
Tree leg: all task trees within a size bound where each task opens 0..2 nested nurseries, blocks in the
nursery body or in __aexit__, with every kind of nursery-body ending.  Hop leg: to_thread/from_thread
ping-pong of depth 0..M observed from the innermost task / thread, starting in a task and in a foreign thread.
Runs on the /venv interpreter only (trio)."""
import itertools
import sys
import threading
import warnings

LEVEL = "exploration"
RULE = ("Trees: (plus five shapes with leaf tasks waiting in to_thread.run_sync of a C-implemented callable) every task tree with <= T tasks (depth <= 3, fan-out <= 2 per nursery, 0..2 nested nurseries per task) x for each "
        "task: block in the innermost nursery body or in the nursery's __aexit__ x nursery-body ending in {plain statement, "
        "try/except, try/finally, conditional return, while loop, `while True: ... break`, `try: ... return` / except}, and for trees with sibling tasks also with every child started under the same name; generated as source, run under trio.run, observed after "
        "wait_all_tasks_blocked(): extract(root_task, recurse_child_tasks=True) must be isomorphic to Trio's own tree "
        "(task.child_nurseries in nesting order as contexts whose obj is the trio.Nursery; children matched to "
        "nursery.child_tasks by root identity; recursively), each task's frames a prefix of its real cr_await chain ending at a "
        "Trio trap, no error, no warning; recurse_child_tasks=False gives frameless stubs. Hops: ping-pong depth 0..M, innermost "
        "async or thread function extracts the originating task (or foreign thread): visible user frames must equal the "
        "program's own call log (identity, order); four fresh interpreters in which the first extraction of the process - the one that installs the Trio glue - happens outside any run / inside a task / on the Trio thread outside any task (an Instrument hook) / in a worker thread, each followed by an ordinary extraction; each hop case also with a second, unrelated Trio run alive in another thread (started before / after the observed run). evaluations = tasks/stacks compared; distinct_nontrivial = distinct programs.")
ASSUMPTIONS = ["observation happens once wait_all_tasks_blocked() fires, so the observed state does not depend on Trio's batch order"]


def legs(tier):
    from vlib.runner import Leg
    return [Leg("3.12", 6 if tier == "quick" else 14)]


def bounds(tier):
    return {"max_tasks": 4 if tier == "quick" else 5, "max_hops": 3}


ENDINGS = ["plain", "tryexc", "tryfin", "condret", "while", "whilebreak", "tryret"]


# ------------------------------------------------------------------ tree shapes
def task_shapes(budget, depth):
    """yield (shape, used) where shape = list of nurseries, each nursery = list of child task shapes.
    A task costs 1. Nested nurseries: nursery j+1 is opened inside nursery j's body."""
    yield [], 1
    if depth <= 0 or budget <= 1:
        return
    # one nursery
    for kids, used in kid_lists(budget - 1, depth - 1, allow_empty=True):
        yield [kids], 1 + used
        # two nested nurseries
        for kids2, used2 in kid_lists(budget - 1 - used, depth - 1, allow_empty=True):
            yield [kids, kids2], 1 + used + used2


def kid_lists(budget, depth, allow_empty):
    if allow_empty:
        yield [], 0
    if budget < 1:
        return
    for k1, u1 in task_shapes(budget, depth):
        yield [k1], u1
        for k2, u2 in task_shapes(budget - u1, depth):
            if u1 + u2 <= budget:
                yield [k1, k2], u1 + u2


def count_tasks(shape):
    return 1 + sum(count_tasks(k) for n in shape for k in n)


def programs(max_tasks):
    seen = set()
    for shape, used in task_shapes(max_tasks, 3):
        if not shape:
            continue
        key = repr(shape)
        if key in seen:
            continue
        seen.add(key)
        yield shape


def render(shape, choices, same_names=False):
    """choices: iterator yielding (block_where, ending) for each task with nurseries, in DFS order.
    same_names: every child task is started with the same explicit name (sibling tasks are then indistinguishable by name)."""
    lines = ["import trio"]
    counter = [0]
    defs = []

    def emit_task(shape):
        tid = counter[0]
        counter[0] += 1
        name = "task%d" % tid
        # (every task function also contains a comprehension whose loop variable is captured by a lambda: with inlined
        # comprehensions that name is a local and a cell variable at once, which moves the start of the value stack)
        body = ["async def %s(rt):" % name, "    rt.enter(%d)" % tid, "    if rt.never: z = [(lambda: q) for q in ()]"]
        if shape == "Q":
            # a leaf that waits for a worker thread running a C-implemented callable (no Python frame of its own)
            body.append("    rt.nq += 1")
            body.append("    await trio.to_thread.run_sync(rt.q.get)")
            defs.append("\n".join(body))
            return name
        if not shape:
            body.append("    await trio.sleep_forever()")
            defs.append("\n".join(body))
            return name
        where, ending = next(choices)
        ind = 1
        child_names = []
        for ni, kids in enumerate(shape):
            body.append("    " * ind + "async with trio.open_nursery() as n%d:" % ni)
            ind += 1
            for k in kids:
                cn = emit_task(k)
                body.append("    " * ind + "n%d.start_soon(%s, rt%s)" % (ni, cn, ", name='kid'" if same_names else ""))
        # innermost nursery body ending
        pad = "    " * ind
        blk = "await trio.sleep_forever()" if where == "body" else "rt.mark()"
        # if no children at all in the innermost nursery and we do not block in the body, the nursery would exit at once;
        # that is fine: the task then blocks in an outer nursery's __aexit__ or finishes.
        if ending == "plain":
            body.append(pad + blk)
        elif ending == "tryexc":
            body += [pad + "try:", pad + "    " + blk, pad + "except KeyError:", pad + "    pass"]
        elif ending == "tryfin":
            body += [pad + "try:", pad + "    " + blk, pad + "finally:", pad + "    rt.mark()"]
        elif ending == "condret":
            if where == "body":
                body += [pad + blk, pad + "if rt.true:", pad + "    return 5"]
            else:
                body += [pad + "if rt.true:", pad + "    return 5"]
        elif ending == "while":
            body += [pad + "while rt.once():", pad + "    " + blk]
        elif ending == "whilebreak":
            # the only way out of the loop is the conditional break: the nursery's exit sequence is reached by a jump only
            body += [pad + "while True:", pad + "    " + blk, pad + "    if rt.once():", pad + "        break", pad + "    rt.mark()"]
        elif ending == "tryret":
            body += [pad + "try:", pad + "    " + blk, pad + "    return rt.five()", pad + "except KeyError:", pad + "    pass"]
        defs.append("\n".join(body))
        return name
    root = emit_task(shape)
    return "\n\n".join(lines + defs) + "\n", root


def count_choice_tasks(shape):
    if shape == "Q":
        return 0
    n = 1 if shape else 0
    for nur in shape:
        for k in nur:
            n += count_choice_tasks(k)
    return n


class Rt(object):
    true = True
    never = False

    def __init__(s):
        import queue
        s.entered = []
        s._once = {}
        s.q = queue.SimpleQueue()
        s.nq = 0

    def enter(s, tid):
        s.entered.append(tid)

    def mark(s):
        pass

    def five(s):
        return 5

    def once(s):
        fr = sys._getframe(1)
        k = id(fr)
        if s._once.get(k):
            return False
        s._once[k] = True
        return True


def real_chain(coro):
    out = []
    cur = coro
    while cur is not None:
        fr = getattr(cur, "cr_frame", None) or getattr(cur, "gi_frame", None) or getattr(cur, "ag_frame", None)
        if fr is None:
            break
        out.append(fr)
        cur = getattr(cur, "cr_await", None) or getattr(cur, "gi_yieldfrom", None) or getattr(cur, "ag_await", None)
    return out


def compare_tree(stack, task, problems, counter, path):
    import trio
    counter[0] += 1
    if stack.root is not task:
        problems.append("%s: root is not the task" % path)
        return
    if stack.error is not None:
        problems.append("%s: error %r" % (path, stack.error))
    chain = real_chain(task.coro)
    got = [f.pyframe for f in stack.frames]
    if got != chain[:len(got)] or not got:
        problems.append("%s: frames %r are not a prefix of the real await chain %r" % (
            path, [f.f_code.co_name for f in got], [f.f_code.co_name for f in chain]))
    elif len(got) < len(chain) and stack.frames[-1].funcname not in (
            "wait_task_rescheduled", "cancel_shielded_checkpoint", "temporarily_detach_coroutine_object", "permanently_detach_coroutine_object"):
        problems.append("%s: extraction stopped at %s before the blocking point %s" % (
            path, stack.frames[-1].funcname, chain[-1].f_code.co_name))
    nctx = []
    for f in stack.frames:
        for c in f.contexts:
            if isinstance(c.obj, trio.Nursery):
                nctx.append(c)
            elif type(c.obj).__name__ == "NurseryManager":
                problems.append("%s: a nursery context was not resolved to its trio.Nursery" % path)
    real_n = list(task.child_nurseries)
    if [c.obj for c in nctx] != real_n:
        problems.append("%s: nursery contexts %r, Trio says %r" % (path, [c.obj for c in nctx], real_n))
        return
    for ni, (c, n) in enumerate(zip(nctx, real_n)):
        if not c.is_async:
            problems.append("%s: nursery context not async" % path)
        kids = [ch for ch in c.children]
        roots = [getattr(ch, "root", None) for ch in kids]
        if len(roots) != len(n.child_tasks) or set(map(id, roots)) != set(map(id, n.child_tasks)):
            problems.append("%s nursery %d: children %r, Trio says %r" % (path, ni, roots, list(n.child_tasks)))
            continue
        for ch in kids:
            compare_tree(ch, ch.root, problems, counter, path + "/" + ch.root.name.split(".")[-1])


def run_tree(shape, choice_list, same_names=False):
    import trio
    import trio.testing
    import stackscope
    src, rootname = render(shape, iter(choice_list), same_names)
    ns = {}
    exec(compile(src, "<triotree>", "exec"), ns)
    rt = Rt()
    problems = []
    counter = [0]

    async def main():
        async with trio.open_nursery() as nursery:
            box = {}

            async def root_wrapper():
                box["task"] = trio.lowlevel.current_task()
                await ns[rootname](rt)
            nursery.start_soon(root_wrapper)
            await trio.testing.wait_all_tasks_blocked()
            task = box["task"]
            if task.coro.cr_frame is None:
                # the root finished at once (empty nursery, nothing to block on): nothing to observe
                counter.append("finished")
                return
            with warnings.catch_warnings(record=True) as w:
                warnings.simplefilter("always")
                st = stackscope.extract(task, recurse_child_tasks=True)
                st_stub = stackscope.extract(task, recurse_child_tasks=False)
            if w:
                problems.append("warning: %s" % str(w[0].message)[:200])
            # unwrap the wrapper: the real root is the wrapper task; compare from there
            compare_tree(st, task, problems, counter, "root")
            # stubs
            for f in st_stub.frames:
                for c in f.contexts:
                    for ch in c.children:
                        if hasattr(ch, "frames") and (ch.frames or ch.leaf is not None or ch.error is not None or ch.root is None):
                            problems.append("recurse_child_tasks=False: child is not a frameless stub with a root: %r" % (ch,))
            if [f.pyframe for f in st_stub.frames] != [f.pyframe for f in st.frames]:
                problems.append("recurse_child_tasks=False changes the task's own frames")
            for _ in range(rt.nq):
                rt.q.put(1)   # let the worker threads finish
            nursery.cancel_scope.cancel()
    trio.run(main)
    return problems, counter[0], src



INSTALL_SCRIPT = r"""
import json, sys, threading, warnings
import stackscope                      # imported before trio: the Trio glue is still pending
import trio, trio.testing
mode = sys.argv[1]
problems = []
box = {"snaps": []}


def snapshot(tag):
    root = box["root"]
    with warnings.catch_warnings(record=True) as w:
        warnings.simplefilter("always")
        st = stackscope.extract(root, recurse_child_tasks=True)
    warns = [str(x.message)[:160] for x in w]
    if warns:
        problems.append("%s: warnings %r" % (tag, warns))
    if st.error is not None:
        problems.append("%s: error %r" % (tag, st.error))
    nurseries = [c for f in st.frames for c in f.contexts if isinstance(c.obj, trio.Nursery)]
    real = list(root.child_nurseries)
    if [c.obj for c in nurseries] != real:
        problems.append("%s: nursery contexts %r, Trio says %r (all context objs: %r)" % (
            tag, [c.obj for c in nurseries], real, [type(c.obj).__name__ for f in st.frames for c in f.contexts]))
    else:
        for c, n in zip(nurseries, real):
            kids = [ch.root for ch in c.children]
            if set(map(id, kids)) != set(map(id, n.child_tasks)) or len(kids) != len(n.child_tasks):
                problems.append("%s: children %r, Trio says %r" % (tag, kids, list(n.child_tasks)))
            for ch in c.children:
                if not ch.frames or ch.error is not None:
                    problems.append("%s: child %r not extracted down to its blocking point: %r" % (tag, ch.root, ch))
    box["snaps"].append(tag)


class Inst(trio.abc.Instrument):
    def before_io_wait(self, timeout):
        # on the Trio thread, inside trio.run(), but not inside any task
        if mode == "instrument" and box.get("ready") and "first" not in box["snaps"]:
            snapshot("first")


async def leaf():
    await trio.sleep_forever()


async def root_fn():
    box["root"] = trio.lowlevel.current_task()
    async with trio.open_nursery() as outer:
        outer.start_soon(leaf)
        async with trio.open_nursery() as inner:
            inner.start_soon(leaf)
            inner.start_soon(leaf)
            await trio.sleep_forever()


async def main():
    async with trio.open_nursery() as nursery:
        nursery.start_soon(root_fn)
        await trio.testing.wait_all_tasks_blocked()
        box["ready"] = True
        if mode == "instrument":
            await trio.sleep(0.05)          # lets the run loop go idle: the instrument takes the first snapshot
        elif mode == "task":
            snapshot("first")
        elif mode == "thread":
            await trio.to_thread.run_sync(snapshot, "first")
        if "first" not in box["snaps"]:
            problems.append("harness: the first snapshot was not taken (mode %s)" % mode)
        snapshot("second")                  # an ordinary snapshot from a task, after whatever happened first
        nursery.cancel_scope.cancel()

if mode == "outside":
    def g():
        yield 1
    x = g(); next(x)
    stackscope.extract(x)                   # first extraction of the process happens outside any Trio run
    box["snaps"].append("first")
trio.run(main, instruments=[Inst()])
print("RESULT " + json.dumps(problems))
"""


def run_install(mode):
    """In a fresh interpreter (stackscope imported before trio, nothing extracted yet) the FIRST extraction - the one
    that installs the Trio glue - happens in context `mode`; the tree it and a later ordinary extraction report must
    be isomorphic to Trio's."""
    import json
    import os
    import subprocess
    env = dict(os.environ)
    env["PYTHONPATH"] = os.pathsep.join(p for p in sys.path if p)
    p = subprocess.run([sys.executable, "-c", INSTALL_SCRIPT, mode], stdout=subprocess.PIPE, stderr=subprocess.PIPE, env=env, timeout=120)
    out = p.stdout.decode("utf-8", "replace")
    for line in out.splitlines():
        if line.startswith("RESULT "):
            return [str(x) for x in json.loads(line[7:])], 2
    return ["fresh interpreter (mode %s) exited %r without a result: %s" % (mode, p.returncode, p.stderr.decode("utf-8", "replace")[-600:])], 0


# ------------------------------------------------------------------ hops
def start_other_run():
    """another Trio run, alive in a thread of its own for as long as the scenario lasts; returns stop()"""
    import trio
    box = {}
    ready = threading.Event()

    async def omain():
        box["token"] = trio.lowlevel.current_trio_token()
        box["ev"] = trio.Event()
        ready.set()
        await box["ev"].wait()
    th = threading.Thread(target=lambda: trio.run(omain))
    th.start()
    ready.wait(20)

    def stop():
        box["token"].run_sync_soon(box["ev"].set)
        th.join(20)
    return stop


def run_hops(depth, leaf, origin, other=None):
    """origin 'task': main task -> to_thread -> from_thread -> ... ; origin 'thread': foreign thread with a token.
    leaf: 'async' or 'thread' = kind of the innermost function, which performs the extraction of the originator.
    other: None, or 'before' / 'after' = a second, unrelated Trio run is alive in another thread, started before /
    after the run under observation (the token passed to from_thread.run decides which run serves the call)."""
    import trio
    import stackscope
    stops = []
    if other == "before":
        stops.append(start_other_run())
    try:
        return _run_hops(depth, leaf, origin, other, stops)
    finally:
        for stop in stops:
            stop()


def _run_hops(depth, leaf, origin, other, stops):
    import trio
    import stackscope
    problems = []
    res = []
    log = []
    target = {}

    def observe():
        with warnings.catch_warnings(record=True) as w:
            warnings.simplefilter("always")
            st = stackscope.extract(target["obj"])
        res.append((st, [str(x.message)[:100] for x in w], list(log) ))

    async def a(k):
        log.append(sys._getframe(0))
        try:
            if k == depth and leaf == "async":
                observe()
                return
            await trio.to_thread.run_sync(t, k)
        finally:
            log.pop()

    def t(k):
        log.append(sys._getframe(0))
        try:
            if k == depth and leaf == "thread":
                observe()
                return
            trio.from_thread.run(a, k + 1)
        finally:
            log.pop()

    async def main():
        if other == "after":
            stops.append(start_other_run())
        if origin == "task":
            target["obj"] = trio.lowlevel.current_task().coro
            await a(0)
        else:
            token = trio.lowlevel.current_trio_token()
            done = trio.Event()

            def foreign():
                log.append(sys._getframe(0))
                try:
                    trio.from_thread.run(a, 0, trio_token=token)
                finally:
                    log.pop()
                    token.run_sync_soon(done.set)
            th = threading.Thread(target=foreign)
            target["obj"] = th
            th.start()
            await done.wait()
            th.join()
    if other:
        # the observed run lives in a fresh thread too, so that its per-thread run context is created later than
        # (other == 'before') or earlier than (other == 'after') the unrelated run's
        failure = []

        def host():
            try:
                trio.run(main)
            except BaseException as ex:  # noqa
                failure.append(ex)
        ht = threading.Thread(target=host)
        ht.start()
        ht.join(120)
        if failure:
            raise failure[0]
    else:
        trio.run(main)
    if len(res) != 1:
        return ["harness: %d observations (depth %d leaf %s)" % (len(res), depth, leaf)], 0
    st, warns, calls = res[0]
    if st.error is not None:
        problems.append("error %r" % (st.error,))
    if warns:
        problems.append("warnings %r" % (warns,))
    codes = set(f.f_code for f in calls)
    got = [f.pyframe for f in st.frames if f.pyframe.f_code in codes and not f.hide]
    if got != calls:
        problems.append("visible user frames %r, call log %r (all visible: %r)" % (
            [(f.f_code.co_name, f.f_locals.get("k")) for f in got], [(f.f_code.co_name, f.f_locals.get("k")) for f in calls],
            [f.funcname for f in st.frames if not f.hide]))
    return problems, 1


def hop_cases(maxd):
    for mode in ("outside", "task", "instrument", "thread"):
        yield {"leg": "install", "mode": mode}
    for origin in ("task", "thread"):
        for d in range(0, maxd + 1):
            for leaf in ("async", "thread"):
                if origin == "task" and d == 0 and leaf == "thread":
                    pass
                yield {"leg": "hops", "depth": d, "leaf": leaf, "origin": origin}
                for other in ("before", "after"):
                    yield {"leg": "hops", "depth": d, "leaf": leaf, "origin": origin, "other": other}


QSHAPES = [[["Q"]], [["Q", []]], [[[]], ["Q"]], [[[["Q"]]]], [["Q", "Q"]]]


def tree_cases(max_tasks, full_owners=2):
    import itertools as _it
    for shape in _it.chain(QSHAPES, programs(max_tasks)):
        n = count_choice_tasks(shape)
        # tasks that own nurseries
        owners = count_owner(shape)
        for combo in itertools.product(list(itertools.product(("body", "aexit"), ENDINGS)), repeat=owners) if owners <= full_owners else \
                itertools.product(list(itertools.product(("body", "aexit"), ("plain", "whilebreak", "tryret"))), repeat=owners):
            yield {"leg": "tree", "shape": shape, "choices": [list(c) for c in combo]}
            if has_siblings(shape) and all(c[1] == "plain" for c in combo):
                # sibling tasks that all carry the same name (e.g. the same function started twice)
                yield {"leg": "tree", "shape": shape, "choices": [list(c) for c in combo], "same_names": True}


def has_siblings(shape):
    if shape == "Q":
        return False
    return any(len(nur) >= 2 or any(has_siblings(k) for k in nur) for nur in shape)


def count_owner(shape):
    if shape == "Q":
        return 0
    n = 1 if shape else 0
    for nur in shape:
        for k in nur:
            n += count_owner(k)
    return n


def do_case(case):
    if case["leg"] == "tree":
        problems, n, src = run_tree(case["shape"], [tuple(c) for c in case["choices"]], case.get("same_names", False))
        return problems, n
    if case["leg"] == "install":
        return run_install(case["mode"])
    return run_hops(case["depth"], case["leaf"], case["origin"], case.get("other"))


def run(ctx):
    b = bounds(ctx.tier)
    idx = 0
    for case in itertools.chain(hop_cases(b["max_hops"]), tree_cases(b["max_tasks"], 1 if ctx.tier == "quick" else 2)):
        idx += 1
        if not ctx.mine(idx):
            continue
        if idx % 20 == 0:
            ctx.inflight(case)
        problems, n = do_case(case)
        ctx.count("evaluations", n)
        ctx.count("distinct_nontrivial")
        ctx.count("programs")
        if problems:
            ctx.violation(case, "; ".join(problems)[:1500], case["leg"] + ":" + problems[0].split(":")[0])
        if idx % 211 == 0:
            ctx.sample(case)


def replay(case):
    problems, n = do_case(case)
    return [{"detail": p} for p in problems]
