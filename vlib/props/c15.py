"""C15 - greenlet stacks: suspended, current, dead, foreign-thread, and greenback bridges.
Greenlet leg: all parent chains of depth 1..3 x call depth 1..3 inside each; at every ask point (innermost
greenlet running; each parent after its child parked; main at the end) EVERY greenlet of the universe is
extracted and compared with a gr_frame / f_back walk.  Greenback leg: alternation depth 0..3, observed from
outside and from inside the task.  Runs on the /venv interpreter only (greenlet, greenback, trio)."""
import itertools
import sys
import threading
import warnings

LEVEL = "exploration"
RULE = ("Greenlets: every chain main <- G0 <- G1 <- G2 (length 1..3, thorough 1..5) with every call depth 1..3 inside each greenlet; ask points: "
        "inside the innermost greenlet while all ancestors are suspended in switch() into a descendant; inside each parent after "
        "its child switched back; in main after everything parked; at each ask point every greenlet (main, each Gi, an unstarted "
        "one, a dead one) is extracted: suspended -> exactly the f_back walk from gr_frame; current -> exactly its own portion of "
        "the running stack (f_back walk from the asker to the greenlet boundary; also when the asker's parent is a greenlet that has finished or was never started, or both nearest ancestors have finished); unstarted/dead -> no frames; running in another "
        "thread (a non-main greenlet there, or that thread's MAIN greenlet while the thread runs in it, asked from this thread's main or a non-main greenlet; that thread's suspended and unstarted greenlets are extracted too) -> an error and no frames. This covers askers {outside, self, child, grandchild, parent}. Greenback: async/sync "
        "alternation depth 0..3 (thorough 0..7) under trio (await_ given coroutines, and given non-coroutine awaitables) with the extraction taken from outside (callback while the task is blocked) and from "
        "inside (innermost sync or async function, also from inside 1-2 plain greenlets started below the task's greenback greenlet): the user functions must appear exactly once each, in call order, and no "
        "visible frame may belong to await_, _greenback_shim or trampoline. The same towers under asyncio, where at one chosen level (each level in turn, or none) the task is cancelled while waiting and swallows the cancellation before going deeper, so that this level's bridge last resumed its coroutine by throwing an exception into it: besides the user functions only greenback's coroutine wrapper may be visible. evaluations = extractions checked; "
        "distinct_nontrivial = distinct (chain, depths, ask point, target) / (alternation depth, leaf kind, vantage).")
ASSUMPTIONS = ["CPython only (a greenlet's outermost frame has f_back None)", "greenback's own coroutine wrapper frames (greenback_shim, adapt_awaitable) are not required to be hidden"]


RULE += ' Round 9: greenlets entered through a C callable making 1-3 Python calls, extracted 1-2 times at every suspension.'


def legs(tier):
    from vlib.runner import Leg
    return [Leg("3.12", 4)]


def bounds(tier):
    return {"chain": 3 if tier == "quick" else 5, "call_depth": 2 if tier == "quick" else 3, "alternations": 3 if tier == "quick" else 7}


def walk(frame):
    out = []
    while frame is not None:
        out.append(frame)
        frame = frame.f_back
    out.reverse()
    return out


def check_all(universe, asker_name, problems, counter, tag):
    import greenlet
    import stackscope
    me = sys._getframe(1)
    cur = greenlet.getcurrent()
    for name, g, state in universe():
        with warnings.catch_warnings(record=True) as w:
            warnings.simplefilter("always")
            st = stackscope.extract(g, with_contexts=False)
        counter[0] += 1
        got = [f.pyframe for f in st.frames]
        if g is cur:
            exp = walk(sys._getframe(0))
            # extraction is called from this function: its frame is the caller of extract
            kind = "current"
        elif state in ("unstarted", "dead") or (g.gr_frame is None and not g):
            exp = []
            kind = state
        else:
            exp = walk(g.gr_frame)
            kind = "suspended"
        if got != exp or st.error is not None or w:
            problems.append("%s: asker=%s target=%s (%s): frames %r expected %r error=%r warn=%r" % (
                tag, asker_name, name, kind, [f.f_code.co_name for f in got], [f.f_code.co_name for f in exp], st.error,
                [str(x.message)[:60] for x in w]))
        if st.root is not g:
            problems.append("%s: root is not the greenlet" % tag)


def run_chain(depths):
    """depths: call depth inside each greenlet of the chain"""
    import greenlet
    problems = []
    counter = [0]
    main = greenlet.getcurrent()
    gs = []
    unstarted = greenlet.greenlet(lambda: None)

    def quick():
        return 1
    dead = greenlet.greenlet(quick)
    dead.switch()

    def universe():
        out = [("main", main, "live")]
        for i, g in enumerate(gs):
            out.append(("G%d" % i, g, "live"))
        out.append(("unstarted", unstarted, "unstarted"))
        out.append(("dead", dead, "dead"))
        return out

    def descend(i, d):
        if d > 1:
            return descend(i, d - 1)
        return act(i)

    def act(i):
        if i + 1 < len(depths):
            child = greenlet.greenlet(lambda: descend(i + 1, depths[i + 1]), parent=greenlet.getcurrent())
            gs.append(child)
            child.switch()
            # the child parked: we are its parent, it is suspended in parent.switch()
            check_all(universe, "G%d(parent-of-parked-child)" % i, problems, counter, "after-child-parked")
        else:
            check_all(universe, "G%d(innermost)" % i, problems, counter, "innermost-running")
        greenlet.getcurrent().parent.switch("parked")
        return "done"
    g0 = greenlet.greenlet(lambda: descend(0, depths[0]))
    gs.append(g0)
    g0.switch()
    check_all(universe, "main(outside)", problems, counter, "all-parked")
    # let everything finish, innermost first
    for g in reversed(gs):
        g.switch()
    check_all(universe, "main(outside)", problems, counter, "all-dead")
    return problems, counter[0]


def frameless_parent(arrangement, depth):
    """The calling greenlet's parent has no frame: it finished before the caller first ran (a spawner), was never
    started, or both of the caller's nearest ancestors are finished.  Every greenlet of the universe is extracted from
    inside the caller, `depth` calls deep; the caller's own stack is exactly its own portion of the running stack."""
    import greenlet
    problems = []
    counter = [0]
    main = greenlet.getcurrent()
    box = {}

    def descend(d):
        if d > 1:
            return descend(d - 1)
        check_all(universe, "worker(%s)" % arrangement, problems, counter, "frameless-parent")
        main.switch("parked")

    def worker():
        descend(depth)

    def spawner():
        box["w"] = greenlet.greenlet(worker)

    def spawner2():
        sp = greenlet.greenlet(spawner)
        box["sp"] = sp
        sp.switch()

    if arrangement == "dead":
        sp = greenlet.greenlet(spawner)
        sp.switch()
        ancestors = [("spawner", sp, "dead")]
    elif arrangement == "unstarted":
        par = greenlet.greenlet(lambda *a: None)
        box["w"] = greenlet.greenlet(worker, parent=par)
        ancestors = [("parent", par, "unstarted")]
    else:
        sp2 = greenlet.greenlet(spawner2)
        sp2.switch()
        ancestors = [("spawner2", sp2, "dead"), ("spawner", box["sp"], "dead")]

    def universe():
        return [("main", main, "live"), ("worker", box["w"], "live")] + ancestors
    box["w"].switch()
    check_all(universe, "main(outside)", problems, counter, "frameless-parent/parked")
    return problems, counter[0]


def other_thread():
    import greenlet
    import stackscope
    problems = []
    box = {}
    ready = threading.Event()
    gate = threading.Event()

    def in_glet():
        ready.set()
        gate.wait(30)

    def body():
        box["main"] = greenlet.getcurrent()
        g = greenlet.greenlet(in_glet)
        box["g"] = g
        g.switch()
    t = threading.Thread(target=body)
    t.start()
    ready.wait(30)
    try:
        with warnings.catch_warnings():
            warnings.simplefilter("ignore")
            st = stackscope.extract(box["g"], with_contexts=False)
        if st.error is None:
            problems.append("greenlet running in another thread: no error (frames %r)" % ([f.funcname for f in st.frames],))
        if st.frames:
            problems.append("greenlet running in another thread: some stack was returned: %r" % ([f.funcname for f in st.frames],))
        # the other thread's main greenlet is suspended in switch(): its frames are its own f_back walk
        with warnings.catch_warnings():
            warnings.simplefilter("ignore")
            st2 = stackscope.extract(box["main"], with_contexts=False)
        exp = walk(box["main"].gr_frame)
        if [f.pyframe for f in st2.frames] != exp or st2.error is not None:
            problems.append("suspended main greenlet of another thread: %r expected %r error %r" % (
                [f.funcname for f in st2.frames], [f.f_code.co_name for f in exp], st2.error))
    finally:
        gate.set()
        t.join(30)
    return problems, 2


def foreign_running(asker, nparked, depth):
    """Thread B runs in its MAIN greenlet (blocked in gate.wait, `depth` calls deep) while `nparked` child greenlets of B are
    suspended; thread A asks about every greenlet of B, from its main greenlet or from a non-main greenlet two calls deep."""
    import greenlet
    import stackscope
    problems = []
    box = {"parked": []}
    ready = threading.Event()
    gate = threading.Event()

    def child_body():
        greenlet.getcurrent().parent.switch("parked")

    def wait_deep(d):
        if d > 1:
            return wait_deep(d - 1)
        ready.set()
        gate.wait(30)

    def body():
        box["main"] = greenlet.getcurrent()
        for _ in range(nparked):
            g = greenlet.greenlet(child_body)
            g.switch()
            box["parked"].append(g)
        box["unstarted"] = greenlet.greenlet(child_body)
        wait_deep(depth)
        for g in box["parked"]:
            g.switch()
    t = threading.Thread(target=body)
    t.start()
    ready.wait(30)
    n = [0]

    def level2():
        def ask(g):
            n[0] += 1
            with warnings.catch_warnings():
                warnings.simplefilter("ignore")
                return stackscope.extract(g, with_contexts=False)
        st = ask(box["main"])
        if st.error is None or "another thread" not in str(st.error):
            problems.append("main greenlet running in another thread (asker %s): error is %r, frames %r" % (asker, st.error, [f.funcname for f in st.frames]))
        if st.frames:
            problems.append("main greenlet running in another thread (asker %s): some stack was returned: %r" % (asker, [f.funcname for f in st.frames]))
        for i, g in enumerate(box["parked"]):
            st = ask(g)
            exp = walk(g.gr_frame)
            if [f.pyframe for f in st.frames] != exp or st.error is not None:
                problems.append("suspended greenlet %d of another thread (asker %s): %r expected %r error %r" % (
                    i, asker, [f.funcname for f in st.frames], [f.f_code.co_name for f in exp], st.error))
        st = ask(box["unstarted"])
        if st.frames or st.error is not None:
            problems.append("unstarted greenlet of another thread (asker %s): frames %r error %r" % (asker, [f.funcname for f in st.frames], st.error))

    def level1():
        level2()
    try:
        if asker == "main":
            level1()
        else:
            greenlet.greenlet(level1).switch()
    finally:
        gate.set()
        t.join(30)
    return problems, n[0]


# ------------------------------------------------------------------ greenback
def run_greenback(k, leaf, vantage, wrap=False, nest=0):
    """k alternations: a0 -> s0 -> a1 -> s1 ... ; leaf in {'async','sync'} is the kind of the innermost function;
    vantage in {'outside','inside'}.  nest (vantage 'inside' only): the innermost function takes the snapshot from
    inside `nest` plain greenlets started below the task's greenback greenlet."""
    import trio
    import greenback
    import greenlet
    import stackscope
    problems = []
    results = []
    order = []

    snap_nest = [0]

    def nested(fn, n):
        if n == 0:
            return fn()
        return greenlet.greenlet(lambda: nested(fn, n - 1)).switch()

    def no_abort(_):
        return trio.lowlevel.Abort.FAILED

    def take_inside():
        task = trio.lowlevel.current_task()

        def snap():
            with warnings.catch_warnings(record=True) as w:
                warnings.simplefilter("always")
                results.append((stackscope.extract(task.coro), [str(x.message)[:80] for x in w]))
        nested(snap, snap_nest[0])

    async def park_and_report():
        task = trio.lowlevel.current_task()

        def report_back():
            with warnings.catch_warnings(record=True) as w:
                warnings.simplefilter("always")
                results.append((stackscope.extract(task.coro), [str(x.message)[:80] for x in w]))
            trio.lowlevel.reschedule(task)
        trio.lowlevel.current_trio_token().run_sync_soon(report_back)
        await trio.lowlevel.wait_task_rescheduled(no_abort)

    class Deferred(object):
        """a non-coroutine awaitable: greenback drives adapt_awaitable(aw), not aw itself"""

        def __init__(s, c):
            s.c = c

        def __await__(s):
            return s.c.__await__()
    ns = {"greenback": greenback, "W": (Deferred if wrap else (lambda c: c))}
    lines = []
    # generate functions a0, s0, a1, s1, ... with unique code objects
    # with nest > 0 the outermost synchronous function runs everything below it inside `nest` plain greenlets (if there
    # is no synchronous function at all, only the snapshot is taken from inside them)
    top_nested = nest > 0 and (k >= 1 or leaf == "sync")
    snap_nest[0] = 0 if top_nested else nest
    ns["NEST"] = (lambda fn: nested(fn, nest))
    for i in range(k):
        lines.append("async def a%d(ctx):\n    return s%d(ctx)\n" % (i, i))
        if i == 0 and top_nested:
            lines.append("def s0(ctx):\n    return NEST(lambda: greenback.await_(W(a1(ctx))))\n")
        else:
            lines.append("def s%d(ctx):\n    return greenback.await_(W(a%d(ctx)))\n" % (i, i + 1))
    if leaf == "async":
        if vantage == "outside":
            lines.append("async def a%d(ctx):\n    await ctx['park']()\n" % k)
        else:
            lines.append("async def a%d(ctx):\n    ctx['inside']()\n" % k)
        names = []
        for i in range(k):
            names += ["a%d" % i, "s%d" % i]
        names.append("a%d" % k)
    else:
        lines.append("async def a%d(ctx):\n    return s%d(ctx)\n" % (k, k))
        if vantage == "outside":
            lines.append("def s%d(ctx):\n    return greenback.await_(W(ctx['park']()))\n" % k)
        elif k == 0 and top_nested:
            lines.append("def s0(ctx):\n    return NEST(lambda: ctx['inside']())\n")
        else:
            lines.append("def s%d(ctx):\n    ctx['inside']()\n" % k)
        names = []
        for i in range(k + 1):
            names += ["a%d" % i, "s%d" % i]
    exec(compile("\n".join(lines), "<gb>", "exec"), ns)
    ctx = {"park": park_and_report, "inside": take_inside}

    async def main():
        await greenback.ensure_portal()
        return await ns["a0"](ctx)
    trio.run(main)
    if len(results) != 1:
        return ["harness: %d results" % len(results)], 0
    st, warns = results[0]
    if st.error is not None:
        problems.append("error %r" % (st.error,))
    if warns:
        problems.append("warnings %r" % (warns,))
    user_codes = dict((ns[n].__code__, n) for n in names)
    seq = [user_codes[f.pyframe.f_code] for f in st.frames if f.pyframe.f_code in user_codes]
    if seq != names:
        problems.append("user frames %r, expected %r (all visible: %r)" % (seq, names, [f.funcname for f in st.frames if not f.hide]))
    for f in st.frames:
        if not f.hide and f.funcname in ("await_", "_greenback_shim", "trampoline", "switch"):
            problems.append("bridging internal %s is visible" % f.funcname)
    vis = [f for f in st.frames if not f.hide]
    vis_user = [user_codes.get(f.pyframe.f_code) for f in vis if f.pyframe.f_code in user_codes]
    if vis_user != names:
        problems.append("a user frame is hidden: visible user frames %r" % (vis_user,))
    if vantage == "inside" and (not st.frames or st.frames[-1].funcname != "snap"):
        problems.append("the stack does not reach the function that asked for it: innermost frames %r" % ([f.funcname for f in st.frames[-3:]],))
    return problems, 1


def run_greenback_asyncio(k, leaf, vantage, throw_at):
    """The same towers under asyncio, where a task is resumed by THROWING into its coroutine when it is cancelled:
    at level `throw_at` (None = never) the async function a<j> waits, is cancelled, swallows the cancellation and only
    then goes deeper - so the bridge at that level last drove its coroutine with an exception, not with a value."""
    import asyncio
    import greenback
    import stackscope
    problems = []
    results = []

    def snap(task):
        with warnings.catch_warnings(record=True) as w:
            warnings.simplefilter("always")
            results.append((stackscope.extract(task.get_coro()), [str(x.message)[:80] for x in w]))

    def take_inside():
        snap(asyncio.current_task())

    async def park_and_report():
        loop = asyncio.get_running_loop()
        task = asyncio.current_task()
        fut = loop.create_future()

        def report_back():
            snap(task)
            fut.set_result(None)
        loop.call_soon(report_back)
        await fut

    async def dance():
        loop = asyncio.get_running_loop()
        task = asyncio.current_task()
        fut = loop.create_future()
        loop.call_soon(task.cancel)
        try:
            await fut
        except asyncio.CancelledError:
            task.uncancel()
        else:
            raise AssertionError("the cancellation was not delivered")
    ns = {"greenback": greenback}
    lines = []
    pre = lambda i: ("    await ctx['dance']()\n" if throw_at == i else "")
    for i in range(k):
        lines.append("async def a%d(ctx):\n%s    return s%d(ctx)\n" % (i, pre(i), i))
        lines.append("def s%d(ctx):\n    return greenback.await_(a%d(ctx))\n" % (i, i + 1))
    if leaf == "async":
        if vantage == "outside":
            lines.append("async def a%d(ctx):\n%s    await ctx['park']()\n" % (k, pre(k)))
        else:
            lines.append("async def a%d(ctx):\n%s    ctx['inside']()\n" % (k, pre(k)))
        names = []
        for i in range(k):
            names += ["a%d" % i, "s%d" % i]
        names.append("a%d" % k)
    else:
        lines.append("async def a%d(ctx):\n%s    return s%d(ctx)\n" % (k, pre(k), k))
        if vantage == "outside":
            lines.append("def s%d(ctx):\n    return greenback.await_(ctx['park']())\n" % k)
        else:
            lines.append("def s%d(ctx):\n    ctx['inside']()\n" % k)
        names = []
        for i in range(k + 1):
            names += ["a%d" % i, "s%d" % i]
    exec(compile("\n".join(lines), "<gba>", "exec"), ns)
    ctx = {"park": park_and_report, "inside": take_inside, "dance": dance}

    async def main():
        await greenback.ensure_portal()
        return await ns["a0"](ctx)
    asyncio.run(main())
    if len(results) != 1:
        return ["harness: %d results" % len(results)], 0
    st, warns = results[0]
    if st.error is not None:
        problems.append("error %r" % (st.error,))
    if warns:
        problems.append("warnings %r" % (warns,))
    user_codes = dict((ns[n].__code__, n) for n in names)
    user_codes[main.__code__] = "main"
    if vantage == "outside":
        user_codes[park_and_report.__code__] = "park_and_report"
    vis = [f for f in st.frames if not f.hide]
    seq = [user_codes[f.pyframe.f_code] for f in st.frames if f.pyframe.f_code in user_codes]
    want = ["main"] + names + (["park_and_report"] if vantage == "outside" else [])
    if seq != want:
        problems.append("user frames %r, expected %r (all visible: %r)" % (seq, want, [f.funcname for f in vis]))
    # every visible frame is a user frame, greenback's coroutine wrapper, or the harness function taking the snapshot
    allowed_extra = ("greenback_shim", "_greenback_shim", "adapt_awaitable", "take_inside", "snap")
    for f in vis:
        if f.pyframe.f_code not in user_codes and f.funcname not in allowed_extra:
            problems.append("bridging internal or foreign frame %s (%s) is visible; all visible: %r" % (
                f.funcname, f.pyframe.f_code.co_filename.rsplit("/", 1)[-1], [x.funcname for x in vis]))
            break
    return problems, 1


def c_entry(entry, njobs, depth, repeat):
    """A greenlet whose run callable is a C callable (list, sorted, max, map via list) that calls SEVERAL Python functions
    in turn: its outermost Python frame changes from one suspension to the next. It is extracted `repeat` times at every
    suspension; each time the frames are those from the current call's entry to the switch point."""
    import greenlet
    import stackscope
    problems = []
    n = [0]
    main = greenlet.getcurrent()

    def handle(job, d=depth):
        if d > 1:
            return handle(job, d - 1)
        main.switch(job)
        return job
    jobs = list(range(njobs))
    if entry == "list-map":
        g = greenlet.greenlet(list)
        arg = (map(handle, jobs),)
    elif entry == "sorted-key":
        g = greenlet.greenlet(sorted)
        arg = (jobs,)
    else:
        g = greenlet.greenlet(max)
        arg = (jobs,)
    kwargs = {"key": handle} if entry in ("sorted-key", "max-key") else {}
    seen = 0
    g.switch(*arg, **kwargs)
    while not g.dead:
        seen += 1
        for r in range(repeat):
            with warnings.catch_warnings(record=True) as w:
                warnings.simplefilter("always")
                st = stackscope.extract(g, with_contexts=False)
            n[0] += 1
            got = [f.pyframe for f in st.frames]
            exp = walk(g.gr_frame)
            if got != exp or st.error is not None or w or len(exp) != depth:
                problems.append("c-entry %s suspension %d look %d: frames %r expected %r error=%r" % (
                    entry, seen, r, [(f.f_code.co_name, f.f_locals.get("job")) for f in got],
                    [(f.f_code.co_name, f.f_locals.get("job")) for f in exp], st.error))
        g.switch()
    st = stackscope.extract(g, with_contexts=False)
    n[0] += 1
    if st.frames or st.error is not None:
        problems.append("c-entry %s: finished greenlet has frames %r error %r" % (entry, st.frames, st.error))
    if seen != njobs:
        problems.append("harness: %d suspensions for %d jobs" % (seen, njobs))
    return problems, n[0]


def greenlet_cases(maxd, maxchain=3):
    for entry in ("list-map", "sorted-key", "max-key"):
        for njobs in (1, 2, 3):
            for depth in range(1, maxd + 1):
                for repeat in (1, 2):
                    yield {"leg": "c_entry", "entry": entry, "njobs": njobs, "depth": depth, "repeat": repeat}
    for n in range(1, maxchain + 1):
        for depths in itertools.product(range(1, maxd + 1), repeat=n):
            yield {"leg": "chain", "depths": list(depths)}
    yield {"leg": "other_thread"}
    for arrangement in ("dead", "unstarted", "dead-dead"):
        for depth in (1, 2, 3):
            yield {"leg": "frameless_parent", "arrangement": arrangement, "depth": depth}
    for asker in ("main", "glet"):
        for nparked in (0, 1, 2):
            for depth in (1, 2):
                yield {"leg": "foreign_running", "asker": asker, "nparked": nparked, "depth": depth}


def greenback_cases(maxk):
    for k in range(0, maxk + 1):
        for leaf in ("async", "sync"):
            for vantage in ("outside", "inside"):
                for wrap in (False, True):
                    yield {"leg": "greenback", "k": k, "leaf": leaf, "vantage": vantage, "wrap": wrap}
                if vantage == "inside":
                    for nest in (1, 2):
                        yield {"leg": "greenback", "k": k, "leaf": leaf, "vantage": vantage, "wrap": False, "nest": nest}
                for throw_at in [None] + list(range(k + 1)):
                    yield {"leg": "greenback_asyncio", "k": k, "leaf": leaf, "vantage": vantage, "throw_at": throw_at}


def do_case(case):
    if case["leg"] == "c_entry":
        return c_entry(case["entry"], case["njobs"], case["depth"], case["repeat"])
    if case["leg"] == "chain":
        return run_chain(case["depths"])
    if case["leg"] == "frameless_parent":
        return frameless_parent(case["arrangement"], case["depth"])
    if case["leg"] == "other_thread":
        return other_thread()
    if case["leg"] == "foreign_running":
        return foreign_running(case["asker"], case["nparked"], case["depth"])
    if case["leg"] == "greenback_asyncio":
        return run_greenback_asyncio(case["k"], case["leaf"], case["vantage"], case.get("throw_at"))
    return run_greenback(case["k"], case["leaf"], case["vantage"], case.get("wrap", False), case.get("nest", 0))


def run(ctx):
    b = bounds(ctx.tier)
    idx = 0
    for case in itertools.chain(greenlet_cases(b["call_depth"], b["chain"]), greenback_cases(b["alternations"])):
        idx += 1
        if not ctx.mine(idx):
            continue
        problems, n = do_case(case)
        ctx.count("evaluations", n)
        ctx.count("distinct_nontrivial", n)
        ctx.count("cases")
        if problems:
            ctx.violation(case, "; ".join(problems)[:1500], case["leg"] + ":" + problems[0].split(":")[0])
        if idx % 7 == 0:
            ctx.sample(case)


def replay(case):
    problems, n = do_case(case)
    return [{"detail": p} for p in problems]
