"""C16 - Frame.origin and extract_outermost keep their documented contracts.
Every frame of every chain of the C03 space (suspended), running chains probed from inside,
threads, greenlets and custom stack items.  3.9 compatible."""
import sys
import threading
import types
import warnings
import weakref

from vlib import chainspace as cs

LEVEL = "exploration"
RULE = ("Every program of the E1 with-program space (AST size <= 3 quick / 4 thorough; coroutine, generator, async generator) at every "
        "suspension incl. inside __aexit__: extract_outermost(x) vs extract(x).frames[0] field by field (contexts with their obj, "
        "flags); an elaborate hook that reads next_inner. Every frame of every (chain, suspension point) of the C03 chain space, plus running chains of depth 1..4 over "
        "{coroutine, generator, async generator} probed from a plain function called by the innermost link (extract(root), "
        "extract(each link), extract_since(None)), plus blocked/dead threads, greenlets (3.12 leg) and custom stack items "
        "with/without frames and with recorded errors, and a task tree whose outermost frame holds child tasks (all with_contexts / recurse_child_tasks combinations passed to both functions). Checks: origin None or weak-referenceable with "
        "extract_outermost(origin).pyframe is the frame (the same origins with with_contexts=False); frames found inside a suspended generator-like carry it as origin; "
        "extract_outermost(x) == extract(x).frames[0] field by field, raises iff there are no frames, re-raising the recorded "
        "error. evaluations = frames checked + extract_outermost comparisons; distinct_nontrivial = distinct (spec, position) "
        "or scenario ids.")
ASSUMPTIONS = ["frames produced by a helper generator that is not visible to the harness (AwGen delegating generator) are checked for the weakref/outermost contract but not for a specific origin"]


def legs(tier):
    from vlib.runner import Leg
    n = 2 if tier == "quick" else 8
    return [Leg(v, n) for v in ("3.12", "3.11", "3.10", "3.9")]


def bounds(tier):
    return {"max_links": 2 if tier == "quick" else 4, "max_positions": 12, "running_depth": 4}


def frame_eq(a, b):
    probs = []
    if a.pyframe is not b.pyframe:
        probs.append("pyframe differs")
    if a.lineno != b.lineno:
        probs.append("lineno %r != %r" % (a.lineno, b.lineno))
    if a.hide != b.hide or a.hide_line != b.hide_line:
        probs.append("flags differ")
    if a.origin is not b.origin:
        probs.append("origin %r is not %r" % (a.origin, b.origin))
    if list(a.contexts) != list(b.contexts):
        probs.append("contexts differ: %r vs %r" % (a.contexts, b.contexts))
    return probs


def check_origin(f, owner, problems, what):
    import stackscope
    if f.origin is None:
        if owner is not None:
            problems.append("%s: frame %s found inside suspended %r has origin None" % (what, f.funcname, owner))
        return
    if owner is not None and f.origin is not owner:
        problems.append("%s: frame %s origin is %r, expected its own %r" % (what, f.funcname, f.origin, owner))
    try:
        weakref.ref(f.origin)
    except TypeError:
        problems.append("%s: origin %r of %s is not weak-referenceable" % (what, f.origin, f.funcname))
        return
    try:
        with warnings.catch_warnings():
            warnings.simplefilter("ignore")
            fo = stackscope.extract_outermost(f.origin)
    except Exception as ex:
        problems.append("%s: extract_outermost(origin=%r) of frame %s raised %r" % (what, f.origin, f.funcname, ex))
        return
    if fo.pyframe is not f.pyframe:
        problems.append("%s: extract_outermost(origin).pyframe is %s, not the frame %s whose origin it is" % (
            what, fo.pyframe.f_code.co_name, f.funcname))


def check_outermost(x, problems, what, st=None, kw=None):
    import stackscope
    kw = kw or {}
    with warnings.catch_warnings():
        warnings.simplefilter("ignore")
        if st is None:
            st = stackscope.extract(x, **kw)
        try:
            fo = stackscope.extract_outermost(x, **kw)
            exc = None
        except Exception as ex:
            fo = None
            exc = ex
    if st.frames:
        if fo is None:
            problems.append("%s: extract_outermost raised %r but extract has frames" % (what, exc))
        else:
            problems.extend("%s: extract_outermost vs extract[0]: %s" % (what, p) for p in frame_eq(fo, st.frames[0]))
    else:
        if fo is not None:
            problems.append("%s: extract_outermost returned %r but extract has no frames" % (what, fo))
        elif st.error is not None:
            def shape(e):
                if hasattr(e, "exceptions"):
                    return ("group", tuple(shape(x) for x in e.exceptions))
                return (type(e).__name__, str(e))
            if shape(exc) != shape(st.error):
                problems.append("%s: extract_outermost raised %r, recorded error was %r" % (what, exc, st.error))
    return st


def observe_suspended(spec, k):
    import stackscope
    kinds, end, outer, pre = spec
    ch = cs.build(kinds, end, outer, pre)
    problems = []
    nchecks = 0
    try:
        n, done = cs.advance(ch, k)
        st = check_outermost(ch.root, problems, "root")
        nchecks += 1
        if done:
            return "exhausted", problems, nchecks
        for f in st.frames:
            nchecks += 1
            check_origin(f, ch.owner_of(f.pyframe), problems, "suspended")
        # origins do not depend on whether contexts were asked for
        with warnings.catch_warnings():
            warnings.simplefilter("ignore")
            st_nc = stackscope.extract(ch.root, with_contexts=False)
        nchecks += 1
        if [f.pyframe for f in st_nc.frames] != [f.pyframe for f in st.frames]:
            problems.append("suspended: with_contexts=False gives other frames")
        else:
            for f, g in zip(st.frames, st_nc.frames):
                if f.origin is not g.origin:
                    problems.append("suspended: frame %s has origin %r with contexts but %r with with_contexts=False" % (f.funcname, f.origin, g.origin))
        return "obs", problems, nchecks
    finally:
        ch.close()


# ------------------------------------------------------------------ running chains
RSRC = '''
async def rco_{i}(nxt, box):
    return await nxt

def rgen_{i}(nxt, box):
    return (yield from nxt)

async def rag_{i}(nxt, box):
    await nxt
    yield 1
'''
RNS = {"types": types}
for _i in range(6):
    exec(compile(RSRC.format(i=_i), "<rchain%d>" % _i, "exec"), RNS)


def running_cases(maxd):
    import itertools
    for d in range(1, maxd + 1):
        for kinds in itertools.product(("co", "ag"), repeat=d):
            yield {"mode": "running", "kinds": list(kinds)}
        yield {"mode": "running", "kinds": ["gen"] * d}


def observe_running(case):
    import stackscope
    kinds = case["kinds"]
    problems = []
    nchecks = [0]
    objs = []

    def probe():
        with warnings.catch_warnings():
            warnings.simplefilter("ignore")
            for o in objs:
                st = stackscope.extract(o)
                nchecks[0] += 1
                for i, f in enumerate(st.frames):
                    nchecks[0] += 1
                    owner = None
                    for oo in objs:
                        for attr in ("cr_frame", "gi_frame", "ag_frame"):
                            if getattr(oo, attr, None) is f.pyframe:
                                owner = oo
                    # running frames: origin may be None, but if set it must obey the contract, and must be the owner
                    if f.origin is not None:
                        check_origin(f, owner, problems, "running(%s)" % type(o).__name__)
                if st.error is not None:
                    problems.append("running: extract(%r) error %r" % (o, st.error))
                check_outermost(o, problems, "running outermost(%s)" % type(o).__name__, st=None)
            st = stackscope.extract_since(None)
            for f in st.frames:
                nchecks[0] += 1
                if f.origin is not None:
                    check_origin(f, None, problems, "extract_since(None)")

    if kinds[0] == "gen":
        def term():
            probe()
            yield "t"
        inner = term()
        objs.append(inner)
        for d, k in reversed(list(enumerate(kinds))):
            inner = RNS["rgen_%d" % d](inner, None)
            objs.append(inner)
        next(inner)
        inner.close()
    else:
        async def term():
            probe()
            await cs.trap()
        inner = term()
        objs.append(inner)
        for d, k in reversed(list(enumerate(kinds))):
            if k == "co":
                inner = RNS["rco_%d" % d](inner, None)
                objs.append(inner)
            else:
                ag = RNS["rag_%d" % d](inner, None)
                objs.append(ag)
                inner = ag.asend(None)
        async def root():
            return await inner
        r = root()
        objs.append(r)
        r.send(None)
        r.close()
        for o in objs:
            if isinstance(o, types.AsyncGeneratorType):
                try:
                    o.aclose().send(None)
                except BaseException:
                    pass
    return problems, nchecks[0]


# ------------------------------------------------------------------ misc scenarios
def misc_scenarios():
    return ["thread_blocked", "thread_dead", "thread_unstarted", "custom_leaf", "custom_raises", "custom_two_raises", "custom_iter_two_errors", "custom_frames_then_raises",
            "custom_frames", "custom_empty", "greenlet_suspended", "greenlet_dead", "gen_unstarted", "none", "int", "task_tree", "late_glue"]


_custom = {}


def custom_types():
    if _custom:
        return _custom
    import stackscope

    class Leafy(object):
        pass

    class Raises(object):
        pass

    class FramesThenRaises(object):
        def __init__(s, fr):
            s.fr = fr

    class Frames(object):
        def __init__(s, fr):
            s.fr = fr

    class Empty(object):
        pass

    @stackscope.unwrap_stackitem.register(Raises)
    def _(x):
        raise ValueError("boom-unwrap")

    @stackscope.unwrap_stackitem.register(FramesThenRaises)
    @stackscope.yields_frames
    def _(x):
        for f in x.fr:
            yield f
        raise ValueError("boom-iter")

    @stackscope.unwrap_stackitem.register(Frames)
    def _(x):
        return list(x.fr)

    @stackscope.unwrap_stackitem.register(Empty)
    def _(x):
        return []
    _custom.update(Leafy=Leafy, Raises=Raises, FramesThenRaises=FramesThenRaises, Frames=Frames, Empty=Empty)
    return _custom


def observe_misc(name):
    import stackscope
    problems = []
    n = [0]

    def both(x, what):
        st = check_outermost(x, problems, what)
        n[0] += 1
        for f in st.frames:
            n[0] += 1
            check_origin(f, None, problems, what)
        return st

    def g1():
        yield 1

    def g2():
        yield 2
    T = custom_types()
    if name.startswith("thread"):
        ev = threading.Event()
        started = threading.Event()

        def body():
            started.set()
            ev.wait()
        t = threading.Thread(target=body)
        if name == "thread_unstarted":
            st = both(t, name)
            if st.frames:
                problems.append("unstarted thread has frames")
            return "ok", problems, n[0]
        t.start()
        started.wait()
        try:
            if name == "thread_blocked":
                st = both(t, name)
                if not st.frames:
                    problems.append("blocked thread has no frames")
        finally:
            ev.set()
            t.join()
        if name == "thread_dead":
            st = both(t, name)
            if st.frames:
                problems.append("dead thread has frames")
        return "ok", problems, n[0]
    if name.startswith("greenlet"):
        try:
            import greenlet
        except ImportError:
            return "skip", [], 0

        def inner():
            greenlet.getcurrent().parent.switch()

        def outerfn():
            inner()
        g = greenlet.greenlet(outerfn)
        g.switch()
        if name == "greenlet_suspended":
            st = both(g, name)
            if [f.funcname for f in st.frames] != ["outerfn", "inner"]:
                problems.append("suspended greenlet frames %r" % [f.funcname for f in st.frames])
            g.switch()
        else:
            g.switch()
            st = both(g, name)
            if st.frames:
                problems.append("dead greenlet has frames")
        return "ok", problems, n[0]
    if name == "late_glue":
        # a stack-item type whose module brings its own glue and appears in sys.modules only now: extract_outermost is the
        # FIRST thing asked of stackscope afterwards, and must already agree with what extract says next
        import types as _types
        serial = len([k for k in sys.modules if k.startswith("vmod_c16_")])
        modname = "vmod_c16_%d" % serial
        mod = _types.ModuleType(modname)

        class Job(object):
            def __init__(s, gen):
                s.gen = gen

        def install():
            @stackscope.unwrap_stackitem.register(Job)
            def _(job):
                return job.gen
        mod.Job = Job
        mod._stackscope_install_glue_ = install
        a = g1()
        next(a)
        job = Job(a)
        sys.modules[modname] = mod
        try:
            with warnings.catch_warnings():
                warnings.simplefilter("ignore")
                try:
                    fo = stackscope.extract_outermost(job)
                    exc = None
                except Exception as ex:
                    fo, exc = None, ex
                st = stackscope.extract(job)
        finally:
            del sys.modules[modname]
        n[0] += 1
        if [f.pyframe for f in st.frames] != [a.gi_frame] or st.error is not None:
            problems.append("late_glue: extract gives %r" % (st,))
        elif fo is None:
            problems.append("late_glue: extract_outermost raised %r although extract (asked right afterwards) has frames" % (exc,))
        else:
            problems.extend("late_glue: extract_outermost vs extract[0]: %s" % p for p in frame_eq(fo, st.frames[0]))
        return "ok", problems, n[0]
    if name == "task_tree":
        # the outermost frame itself holds a context with child tasks (two levels of them): the options decide what the
        # children look like, and extract_outermost must decide exactly like extract
        if "Nursery" not in T:
            class Nursery(object):
                def __init__(s, tasks):
                    s.tasks = tasks

                def __enter__(s):
                    return s

                def __exit__(s, *a):
                    return False

            @stackscope.elaborate_context.register(Nursery)
            def _(mgr, context):
                context.children = [stackscope.extract_child(t, for_task=True) for t in mgr.tasks]
            T["Nursery"] = Nursery
        Nursery = T["Nursery"]

        def task(kids):
            with Nursery(kids) as nursery:
                yield len(kids)

        def mk(depth, fan):
            kids = [mk(depth - 1, fan) for _ in range(fan)] if depth else []
            t = task(kids)
            next(t)
            return t
        for depth, fan in ((1, 1), (2, 2)):
            root = mk(depth, fan)
            for kw in ({}, {"with_contexts": True, "recurse_child_tasks": False}, {"with_contexts": True, "recurse_child_tasks": True},
                       {"with_contexts": False, "recurse_child_tasks": True}, {"with_contexts": False, "recurse_child_tasks": False},
                       {"recurse_child_tasks": True}, {"with_contexts": False}):
                st = check_outermost(root, problems, "%s(depth %d, fan %d, %r)" % (name, depth, fan, kw), kw=kw)
                n[0] += 1
                want_ctx = kw.get("with_contexts", True)
                want_rec = kw.get("recurse_child_tasks", False)
                cs_ = st.frames[0].contexts
                if bool(cs_) != want_ctx:
                    problems.append("%s %r: contexts %r" % (name, kw, cs_))
                elif cs_:
                    kids = cs_[0].children
                    if len(kids) != fan or any(bool(k.frames) != want_rec for k in kids):
                        problems.append("%s %r: children %r" % (name, kw, kids))
        return "ok", problems, n[0]
    a = g1()
    b = g2()
    next(a)
    next(b)
    if name == "custom_leaf":
        st = both(T["Leafy"](), name)
    elif name == "custom_raises":
        st = both(T["Raises"](), name)
        if st.error is None:
            problems.append("no recorded error")
    elif name == "custom_two_raises":
        # a frameless item that fans out into two failing members: the recorded error is a group of both
        st = both(T["Frames"]([T["Raises"](), T["Raises"]()]), name)
        if st.frames or not hasattr(st.error, "exceptions") or len(st.error.exceptions) != 2:
            problems.append("expected no frames and a group of two errors, got %r" % (st,))
    elif name == "custom_iter_two_errors":
        st = both(T["FramesThenRaises"]([T["Raises"]()]), name)
        if st.frames or not hasattr(st.error, "exceptions") or len(st.error.exceptions) != 2:
            problems.append("expected no frames and a group of two errors, got %r" % (st,))
    elif name == "custom_frames_then_raises":
        st = both(T["FramesThenRaises"]([a.gi_frame, b.gi_frame]), name)
        if len(st.frames) != 2 or st.error is None:
            problems.append("expected 2 frames and an error, got %r" % (st,))
    elif name == "custom_frames":
        st = both(T["Frames"]([a.gi_frame, b]), name)
        if [f.pyframe for f in st.frames] != [a.gi_frame, b.gi_frame]:
            problems.append("frames %r" % (st.frames,))
        else:
            if st.frames[1].origin is not b:
                problems.append("frame found inside suspended generator b has origin %r" % (st.frames[1].origin,))
    elif name == "custom_empty":
        st = both(T["Empty"](), name)
    elif name == "gen_unstarted":
        st = both(g1(), name)
    elif name == "none":
        st = both(None, name)
    elif name == "int":
        st = both(42, name)
    return "ok", problems, n[0]


class OutermostObserver(object):
    """progspace observer: extract_outermost(target) must equal extract(target).frames[0] at every suspension,
    in particular when the outermost frame is suspended inside one of its own managers' __aexit__."""
    wants_probe = False

    def __init__(self, withs):
        self.fails = []
        self.nobs = 0

    def on_suspend(self, rt, target, tag, n):
        import stackscope
        self.nobs += 1
        problems = []
        with warnings.catch_warnings():
            warnings.simplefilter("ignore")
            st = stackscope.extract(target)
        check_outermost(target, problems, "suspended@%s" % tag, st=st)
        for f in st.frames[:1]:
            check_origin(f, target, problems, "suspended@%s" % tag)
        if problems:
            self.fails.append((tag, n, problems))


def hook_scenario():
    """an elaborate_frame hook whose answer depends on next_inner: both entry points must give it the same next_inner"""
    import stackscope
    problems = []

    def inner_gen():
        yield 1

    def outer_gen():
        yield from inner_gen()
    seen = []

    def hook(frame, next_inner):
        seen.append(next_inner)
        frame.hide_line = isinstance(next_inner, stackscope.Frame)
        return None
    stackscope.elaborate_frame.register(outer_gen, hook)
    g = outer_gen()
    next(g)
    check_outermost(g, problems, "hook-reads-next_inner")
    g.close()
    return problems, 1


def hook_returns_genlike():
    """An elaborate_frame hook that hands back a suspended coroutine / generator / async generator (replace and insert
    forms): every frame found inside it must carry its own generator-like object as origin."""
    import stackscope
    problems = []
    n = 0

    async def leaf():
        await cs.trap()

    async def middle():
        await leaf()

    def subgen():
        yield 1

    def midgen():
        yield from subgen()
    for form in ("replace", "insert"):
        for kind in ("coro", "gen"):
            driven = middle() if kind == "coro" else midgen()
            driven.send(None)
            objs = [driven]
            cur = driven
            while True:
                nxt = getattr(cur, "cr_await", None) or getattr(cur, "gi_yieldfrom", None)
                if nxt is None or not isinstance(nxt, cs.GENLIKE):
                    break
                objs.append(nxt)
                cur = nxt

            def runner():
                yield "parked"
            r = runner()
            next(r)

            def hook(frame, next_inner, driven=driven, form=form):
                return (driven, next_inner) if form == "insert" else driven
            stackscope.elaborate_frame.register(r.gi_code, hook)
            with warnings.catch_warnings():
                warnings.simplefilter("ignore")
                st = stackscope.extract(r)
            if st.error is not None:
                problems.append("%s/%s: error %r" % (form, kind, st.error))
            for f in st.frames:
                n += 1
                owner = r if f.pyframe is r.gi_frame else None
                for o in objs:
                    if (getattr(o, "cr_frame", None) or getattr(o, "gi_frame", None)) is f.pyframe:
                        owner = o
                check_origin(f, owner, problems, "hook-returns-%s(%s)" % (kind, form))
            r.close()
            driven.close()
    return problems, n


def run(ctx):
    b = bounds(ctx.tier)
    idx = 0
    from vlib import progspace as ps
    from vlib.ctxobs import run_program
    g = ps.grammar("core")
    for body in ps.programs(g, 3 if ctx.tier == "quick" else 4, 3):
        for kind in ("coro", "agen", "gen"):
            if not ps.kind_ok(body, kind) or not ps.nontrivial(body, kind):
                continue
            idx += 1
            if not ctx.mine(idx):
                continue
            npaths, nobs = run_program(body, kind, ctx, OutermostObserver, case_extra={"mode": "prog"})
            ctx.count("evaluations", nobs)
            ctx.count("distinct_nontrivial")
            ctx.count("programs")
    idx += 1
    if ctx.mine(idx):
        problems, n = hook_scenario()
        ctx.count("evaluations", n)
        if problems:
            ctx.violation({"mode": "hook"}, "; ".join(problems)[:1200], "hook")
    idx += 1
    if ctx.mine(idx):
        problems, n = hook_returns_genlike()
        ctx.count("evaluations", n)
        ctx.count("distinct_nontrivial", 4)
        if problems:
            ctx.violation({"mode": "hookgen"}, "; ".join(problems)[:1200], "hookgen")
    for spec in cs.specs(b["max_links"]):
        idx += 1
        if not ctx.mine(idx):
            continue
        for k in range(0, b["max_positions"] + 1):
            status, problems, nchecks = observe_suspended(spec, k)
            ctx.count("evaluations", nchecks)
            ctx.count("distinct_nontrivial")
            if problems:
                ctx.violation({"mode": "suspended", "spec": spec, "k": k}, "; ".join(problems)[:1500], problems[0].split(":")[0])
            if status == "exhausted":
                break
        if idx % 499 == 0:
            ctx.sample({"mode": "suspended", "spec": spec})
    for case in running_cases(b["running_depth"]):
        idx += 1
        if not ctx.mine(idx):
            continue
        problems, nchecks = observe_running(case)
        ctx.count("evaluations", nchecks)
        ctx.count("distinct_nontrivial")
        ctx.count("running_cases")
        if problems:
            ctx.violation(case, "; ".join(problems)[:1500], problems[0].split(":")[0])
        ctx.sample(case)
    for name in misc_scenarios():
        idx += 1
        if not ctx.mine(idx):
            continue
        status, problems, nchecks = observe_misc(name)
        if status == "skip":
            ctx.count("misc_skipped")
            continue
        ctx.count("evaluations", nchecks)
        ctx.count("distinct_nontrivial")
        ctx.count("misc_cases")
        if problems:
            ctx.violation({"mode": "misc", "name": name}, "; ".join(problems)[:1500], "misc:" + name)


def replay(case):
    if case.get("mode") == "prog":
        from vlib.ctxobs import replay_case
        return replay_case(case, OutermostObserver)
    if case.get("mode") == "hook":
        return [{"detail": p} for p in hook_scenario()[0]]
    if case.get("mode") == "hookgen":
        return [{"detail": p} for p in hook_returns_genlike()[0]]
    if case.get("mode") == "suspended":
        s = case["spec"]
        status, problems, n = observe_suspended((s[0], s[1], s[2], s[3]), case["k"])
    elif case.get("mode") == "running":
        problems, n = observe_running(case)
    else:
        status, problems, n = observe_misc(case["name"])
    return [{"detail": p} for p in problems]
