"""C17 - library glue is installed exactly once, in time, module-provided beats built-in.
Sequential: explicit-state BFS to a fixpoint over histories of sys.modules insertions/removals/re-insertions
interleaved with extractions (through each public entry point), for every assignment of glue kinds to 3 synthetic module names.
Concurrent: stateless schedule exploration (E3) of 2-3 threads entering extract() with every line of the
installation routine a scheduling point and the lock a model lock.  3.9 compatible."""
import itertools
import sys
import threading
import types
import warnings

LEVEL = "model_checking"
RULE = ("Sequential: for every assignment of kinds {module glue, built-in glue, both, neither, raising module glue, raising "
        "built-in glue} to synthetic module names (3 names; quick: all assignments over a 2-name core + a fixed third, thorough: "
        "all 6^3), breadth-first search over histories of add(name) / remove(name) / extraction through each of extract(), extract_outermost(), extract_since(), extract_until() to a FIXPOINT of the canonical "
        "state (order of present synthetic modules, which still carry an un-run glue function, pending built-in glue, O(1) cache "
        "contents relative to the base, reference run counts capped at 2); each state is rebuilt by replaying its history on the "
        "real library. Oracle at every extract: exactly the glue the reference model expects ran (module fn once per module "
        "object, built-in at most once ever and never for a module that has its own, raising glue -> one RuntimeWarning and the "
        "others still run). Concurrent: every schedule with <= B preemptions of 2-3 extracting threads (thorough: also 4, with <= 1 preemption) (+ an environment thread "
        "that removes/adds modules) at line granularity inside add_glue_as_needed; invariant: no glue twice, never both kinds, "
        "the first extraction that started after a module appeared does not return before that module's glue ran, no deadlock; a final quiet extraction leaves every present module with its glue run exactly once (also one whose entry vanished and came back meanwhile).")
ASSUMPTIONS = [
    "in-place replacement of a sys.modules value and mutation of a module's dict after insertion are outside the alphabet",
    "interleavings are at source-line granularity of add_glue_as_needed; one line is atomic (GIL)",
]


def legs(tier):
    from vlib.runner import Leg
    n = 4 if tier == "quick" else 12
    out = []
    for v in ("3.12", "3.9"):
        out.append(Leg(v, n, args={"leg": "seq"}, name=v + "-seq"))
        # thorough: one concurrent scenario per shard (the four-thread and the bound-2 scenarios each take a long time)
        out.append(Leg(v, 2 if tier == "quick" else len(CONC_SCENARIOS), args={"leg": "conc"}, name=v + "-conc"))
    if tier != "quick":
        for v in ("3.11", "3.10"):
            out.append(Leg(v, 4, args={"leg": "seq"}, name=v + "-seq"))
    return out


def bounds(tier):
    return {"names": 3, "kinds": 6, "preemption_bound": 1 if tier == "quick" else 2,
            "kind_assignments": "6^2 x 2" if tier == "quick" else "6^3"}


KINDS = ["module", "builtin", "both", "neither", "raising", "raising_builtin"]
NAMES = ["vmod_a", "vmod_b", "vmod_c"]


class _One(object):
    def __init__(self, fr):
        self.frames = [fr] if fr is not None else []
        self.error = None


class World(object):
    def __init__(self):
        import stackscope
        import stackscope._glue as G
        self.G = G
        self.ss = stackscope
        self.log = []
        self.serial = 0
        self.kinds = {}
        # warm up so that lazily imported modules do not change len(sys.modules) later
        with warnings.catch_warnings():
            warnings.simplefilter("ignore")
            stackscope.extract(self.gen())
            stackscope.extract(threading.current_thread())
        self.base = None

    def gen(self):
        def g():
            yield 1
        x = g()
        next(x)
        return x

    def reset(self, kinds):
        G = self.G
        for n in NAMES:
            sys.modules.pop(n, None)
            G.builtin_glue_pending.pop(n, None)
        self.kinds = dict(kinds)
        del self.log[:]
        for n in NAMES:
            k = self.kinds[n]
            if k in ("builtin", "both", "raising_builtin"):
                self.register_builtin(n, raising=(k == "raising_builtin"))
        with warnings.catch_warnings():
            warnings.simplefilter("ignore")
            self.ss.extract(self.gen())
        self.base = len(sys.modules)
        del self.log[:]

    def register_builtin(self, n, raising=False):
        log = self.log

        def builtin_fn():
            log.append(("builtin", n))
            if raising:
                raise ValueError("builtin glue for %s fails" % n)
        self.G.builtin_glue(n)(builtin_fn)

    def add(self, n):
        assert n not in sys.modules
        m = types.ModuleType(n)
        self.serial += 1
        ser = self.serial
        m._verif_serial = ser
        k = self.kinds[n]
        log = self.log
        if k in ("module", "both", "raising"):
            def modfn():
                log.append(("module", n, ser))
                if k == "raising":
                    raise ValueError("module glue for %s fails" % n)
            m._stackscope_install_glue_ = modfn
        sys.modules[n] = m
        return m

    def remove(self, n):
        del sys.modules[n]

    def extract(self, how="extract"):
        """every public extraction entry point counts as 'an extraction'"""
        with warnings.catch_warnings(record=True) as w:
            warnings.simplefilter("always")
            if how == "outermost":
                fr = self.ss.extract_outermost(self.gen())
                st = _One(fr)
            elif how == "since":
                st = self.ss.extract_since(sys._getframe(0))
            elif how == "until":
                st = self.ss.extract_until(sys._getframe(0), limit=2)
            else:
                st = self.ss.extract(self.gen())
        return st, [x for x in w if issubclass(x.category, RuntimeWarning)]

    def cache_repr(self):
        fn = self.G.add_glue_as_needed
        kd = fn.__kwdefaults__ or {}
        out = []
        for k in sorted(kd):
            v = kd[k]
            items = v if isinstance(v, (list, tuple)) else [v]
            for it in items:
                if isinstance(it, bool) or it is None:
                    out.append(it)
                elif isinstance(it, int):
                    out.append(it - self.base)
                elif isinstance(it, str):
                    out.append(it if it in NAMES else "<base>")
                elif isinstance(it, types.ModuleType):
                    nm = getattr(it, "__name__", "?")
                    if nm in NAMES:
                        out.append((nm, "current" if sys.modules.get(nm) is it else "stale"))
                    else:
                        out.append("<basemod>")
                else:
                    out.append(repr(type(it)))
        return tuple(out)

    def impl_state(self):
        present = []
        for n in list(sys.modules):
            if n in NAMES:
                present.append((n, "_stackscope_install_glue_" in sys.modules[n].__dict__))
        pend = tuple(sorted(n for n in NAMES if n in self.G.builtin_glue_pending))
        return (tuple(present), pend, self.cache_repr())


class Ref(object):
    """reference model"""

    def __init__(self, kinds):
        self.kinds = kinds
        self.present = {}  # name -> dict(modfn_pending)
        self.builtin_pending = dict((n, kinds[n] in ("builtin", "both", "raising_builtin")) for n in NAMES)
        self.runs = {}

    def add(self, n):
        self.present[n] = {"modfn": self.kinds[n] in ("module", "both", "raising")}

    def remove(self, n):
        del self.present[n]

    def extract(self):
        """returns (multiset of expected glue kinds run, expected number of warnings)"""
        exp = []
        nwarn = 0
        for n, st in self.present.items():
            if st["modfn"]:
                st["modfn"] = False
                self.builtin_pending[n] = False
                exp.append(("module", n))
                if self.kinds[n] == "raising":
                    nwarn += 1
            elif self.builtin_pending[n]:
                self.builtin_pending[n] = False
                exp.append(("builtin", n))
                if self.kinds[n] == "raising_builtin":
                    nwarn += 1
        return sorted(exp), nwarn

    def key(self):
        return (tuple(sorted((n, s["modfn"]) for n, s in self.present.items())), tuple(sorted(self.builtin_pending.items())))


HOWS = ("extract", "outermost", "since", "until")


def replay_history(W, kinds, hist):
    """Rebuild state by replaying hist on the real library. Returns (problems, ref, glue_total_counts)."""
    W.reset(kinds)
    ref = Ref(kinds)
    problems = []
    total = {}
    for step, op in enumerate(hist):
        if op[0] == "add":
            W.add(op[1])
            ref.add(op[1])
        elif op[0] == "remove":
            W.remove(op[1])
            ref.remove(op[1])
        else:
            del W.log[:]
            st, warns = W.extract(*op[1:])
            exp, nwarn = ref.extract()
            got = sorted((e[0], e[1]) for e in W.log)
            for e in W.log:
                total[e] = total.get(e, 0) + 1
                if total[e] > 1:
                    problems.append("step %d: glue %r ran %d times" % (step, e, total[e]))
            if got != exp:
                problems.append("step %d (extract): glue run %r, expected %r" % (step, got, exp))
            if len(warns) != nwarn:
                problems.append("step %d (extract): %d RuntimeWarnings, expected %d (%r)" % (
                    step, len(warns), nwarn, [str(x.message)[:80] for x in warns]))
            if st.error is not None or not st.frames:
                problems.append("step %d: extraction did not proceed: %r" % (step, st))
    return problems, ref


def enabled_ops():
    ops = []
    present = [n for n in sys.modules if n in NAMES]
    for n in NAMES:
        if n in present:
            ops.append(("remove", n))
        else:
            ops.append(("add", n))
    for how in HOWS:
        ops.append(("extract", how))
    return ops


def bfs(W, kinds, ctx, max_states=4000):
    seen = set()
    frontier = [[]]
    problems, ref = replay_history(W, kinds, [])
    seen.add((W.impl_state(), ref.key()))
    nstates = 1
    ntrans = 0
    depth = 0
    while frontier:
        hist = frontier.pop(0)
        # rebuild to find enabled ops
        replay_history(W, kinds, hist)
        for op in enabled_ops():
            h2 = hist + [op]
            problems, ref = replay_history(W, kinds, h2)
            ntrans += 1
            if problems:
                ctx.violation({"leg": "seq", "kinds": kinds, "hist": [list(o) for o in h2]}, "; ".join(problems)[:1200],
                              "seq:" + ("missed" if "expected" in problems[0] else "twice"))
                continue  # do not expand violating states
            key = (W.impl_state(), ref.key())
            if key not in seen:
                seen.add(key)
                nstates += 1
                frontier.append(h2)
                depth = max(depth, len(h2))
                if nstates > max_states:
                    ctx.exhaustive = False
                    return nstates, ntrans, depth
    return nstates, ntrans, depth


def kind_assignments(tier):
    if tier == "quick":
        for a, b in itertools.product(KINDS, repeat=2):
            for c in ("module", "builtin"):
                yield {"vmod_a": a, "vmod_b": b, "vmod_c": c}
    else:
        for a, b, c in itertools.product(KINDS, repeat=3):
            yield {"vmod_a": a, "vmod_b": b, "vmod_c": c}


def run_seq(ctx):
    W = World()
    idx = 0
    for kinds in kind_assignments(ctx.tier):
        idx += 1
        if not ctx.mine(idx):
            continue
        ns, nt, depth = bfs(W, kinds, ctx)
        ctx.count("states", ns)
        ctx.count("transitions", nt)
        ctx.count("traces_validated_against_impl", nt)
        ctx.count("evaluations", nt)
        ctx.count("distinct_nontrivial", ns)
        ctx.count("kind_assignments")
        ctx.counters["max_history_depth"] = max(ctx.counters.get("max_history_depth", 0), depth)
        if idx % 17 == 0:
            ctx.sample({"leg": "seq", "kinds": kinds, "states": ns, "transitions": nt, "max_depth": depth})
    W.reset(dict((n, "neither") for n in NAMES))


# ------------------------------------------------------------------ concurrent
CONC_SCENARIOS = [
    # (kinds, initial ops before threads start, env script, number of extract threads)
    ({"vmod_a": "module", "vmod_b": "builtin", "vmod_c": "both"}, [("add", "vmod_a"), ("add", "vmod_b")], [], 2),
    ({"vmod_a": "module", "vmod_b": "builtin", "vmod_c": "both"}, [("add", "vmod_a"), ("extract",), ("add", "vmod_b")],
     [("remove", "vmod_a"), ("add", "vmod_c")], 2),
    ({"vmod_a": "raising", "vmod_b": "both", "vmod_c": "module"}, [("add", "vmod_a"), ("add", "vmod_b")], [("add", "vmod_c")], 2),
    ({"vmod_a": "builtin", "vmod_b": "module", "vmod_c": "raising_builtin"}, [("add", "vmod_c"), ("extract",), ("remove", "vmod_c"), ("add", "vmod_a")],
     [("add", "vmod_b")], 2),
    ({"vmod_a": "both", "vmod_b": "both", "vmod_c": "neither"}, [("add", "vmod_a"), ("add", "vmod_b")], [], 3),
    # a module with built-in glue vanishes and comes back while extractions are in flight
    ({"vmod_a": "module", "vmod_b": "builtin", "vmod_c": "builtin"}, [("add", "vmod_a"), ("add", "vmod_b"), ("add", "vmod_c")],
     [("remove", "vmod_b"), ("add", "vmod_b")], 2),
    # four extracting threads + environment (thorough tier only, at most one preemption)
    ({"vmod_a": "module", "vmod_b": "raising_builtin", "vmod_c": "both"}, [("add", "vmod_a"), ("add", "vmod_b")], [("add", "vmod_c")], 4),
]
FOUR_THREAD_SCENARIOS = (6,)


_LF = {}


def helper_codes(G):
    out = []
    for nm in ("_newest_module",):
        f = getattr(G, nm, None)
        if f is not None and hasattr(f, "__code__"):
            out.append(f.__code__)
    return out


def loop_filter(G):
    """Scheduling-point filter: inside the `for module_name in ...` loop of add_glue_as_needed, iterations over
    modules that are not synthetic touch no state shared with the scenario (they pop a missing key and read a
    module dict), so they are executed atomically; every other line of the routine is a scheduling point."""
    if "f" in _LF:
        return _LF["f"]
    import ast
    import inspect
    import textwrap
    fn = G.add_glue_as_needed
    src = textwrap.dedent(inspect.getsource(fn))
    tree = ast.parse(src)
    off = fn.__code__.co_firstlineno - 1
    rng = None
    for node in ast.walk(tree):
        if isinstance(node, ast.For):
            rng = (node.lineno + off, node.end_lineno + off)
            break
    code = fn.__code__

    def flt(frame):
        if frame.f_code is code and rng is not None and rng[0] <= frame.f_lineno <= rng[1]:
            return frame.f_locals.get("module_name") in NAMES
        return True
    _LF["f"] = flt
    return flt


def run_conc_scenario(W, si, bound, ctx):
    from vlib import schedx
    kinds, init, env, nthreads = CONC_SCENARIOS[si]
    G = W.G
    sched_ref = [None]
    lock = schedx.ModelLock(sched_ref)
    orig_lock = G.glue_lock
    G.glue_lock = lock
    events = []
    try:
        def make():
            W.reset(kinds)
            lock.owner = None
            del events[:]
            for op in init:
                if op[0] == "add":
                    W.add(op[1])
                elif op[0] == "remove":
                    W.remove(op[1])
                else:
                    W.extract()
            del W.log[:]
            events.append(("init-present", tuple(n for n in sys.modules if n in NAMES)))
            s = schedx.Sched(trace_codes=[G.add_glue_as_needed.__code__] + helper_codes(G), trace_filter=loop_filter(G))
            sched_ref[0] = s

            def extractor(tc):
                s.point(("pre-start", tc.name))
                events.append(("start", tc.name, tuple((n, getattr(sys.modules.get(n), "_verif_serial", None)) for n in NAMES if n in sys.modules), len(W.log)))
                with warnings.catch_warnings():
                    warnings.simplefilter("ignore")
                    st = W.ss.extract(W.gen())
                events.append(("end", tc.name, tuple(W.log), st.error))
                return st

            def envthread(tc):
                for op in env:
                    s.point(("env", op))
                    if op[0] == "add":
                        m = W.add(op[1])
                        events.append(("env-add", op[1], m._verif_serial))
                    else:
                        W.remove(op[1])
                        events.append(("env-remove", op[1]))
            for i in range(nthreads):
                s.add("T%d" % i, extractor)
            if env:
                s.add("ENV", envthread)
            return s

        def check(s, ex):
            problems = []
            for tc in s.threads:
                if tc.exc is not None:
                    problems.append("thread %s raised %r" % (tc.name, tc.exc))
            counts = {}
            for e in W.log:
                counts[e] = counts.get(e, 0) + 1
            for e, c in counts.items():
                if c > 1:
                    problems.append("glue %r ran %d times" % (e, c))
            # never both kinds for one module object
            mods_with_modfn = set(e[1] for e in W.log if e[0] == "module")
            # a name's builtin may only run if the module present then had no module fn; detect both for the same name+serial
            # obligation: first extraction that started after module (name, serial) appeared
            first = {}
            for ev in events:
                if ev[0] == "start":
                    for (n, ser) in ev[2]:
                        first.setdefault((n, ser), ev[1])
            ends = dict((ev[1], ev) for ev in events if ev[0] == "end")
            removed = set()
            for ev in events:
                if ev[0] == "env-remove":
                    removed.add(ev[1])
            for (n, ser), tname in first.items():
                k = kinds[n]
                if n in removed:
                    continue  # removed while extractions were in flight: no obligation
                endev = ends.get(tname)
                if endev is None:
                    continue
                logat = endev[2]
                if k in ("module", "both", "raising"):
                    want = ("module", n, ser)
                    if want not in logat:
                        problems.append("extraction %s (first to start after %s#%d appeared) returned before its module glue ran" % (tname, n, ser))
                elif k in ("builtin", "raising_builtin"):
                    # built-in glue: at most once ever; must have run by now unless it ran before the threads started
                    ran_before = ("builtin", n) in prelog
                    if not ran_before and ("builtin", n) not in logat:
                        problems.append("extraction %s returned before built-in glue for %s ran" % (tname, n))
            for n in NAMES:
                if kinds[n] == "both" and ("builtin", n) in W.log:
                    problems.append("built-in glue ran for %s although the module provides its own" % n)
            # whatever happened while the threads ran: one more extraction, with everything quiet, leaves every module
            # that is present now with its glue installed (exactly once)
            with warnings.catch_warnings():
                warnings.simplefilter("ignore")
                W.extract()
            for n in NAMES:
                if n not in sys.modules:
                    continue
                k = kinds[n]
                nb = sum(1 for e in W.log if e[:2] == ("builtin", n))
                if k in ("builtin", "raising_builtin") and nb + (1 if ("builtin", n) in prelog else 0) != 1:
                    problems.append("after a final quiet extraction the built-in glue for %s (present) has run %d times" % (n, nb))
                if k in ("module", "both", "raising"):
                    ser = getattr(sys.modules[n], "_verif_serial", None)
                    nm = sum(1 for e in W.log if e == ("module", n, ser)) + sum(1 for e in prelog if e == ("module", n, ser))
                    if nm != 1:
                        problems.append("after a final quiet extraction the module glue of %s#%s has run %d times" % (n, ser, nm))
            return problems

        prelog = []

        def make2():
            s = make()
            return s
        # record glue that ran during init (before threads): replay init once
        W.reset(kinds)
        for op in init:
            if op[0] == "add":
                W.add(op[1])
            elif op[0] == "remove":
                W.remove(op[1])
            else:
                W.extract()
        prelog[:] = list(W.log)

        def outcome(s, ex):
            return (tuple((e[0], e[1]) for e in W.log), tuple((ev[0], ev[1]) for ev in events if ev[0] in ("start", "end")))
        res = schedx.explore(make2, check, bound, on_exec=outcome)
        return res
    finally:
        G.glue_lock = orig_lock
        sched_ref[0] = None


def run_conc(ctx):
    W = World()
    bound = bounds(ctx.tier)["preemption_bound"]
    for si in range(len(CONC_SCENARIOS)):
        if not ctx.mine(si):
            continue
        sbound = bound
        if si in FOUR_THREAD_SCENARIOS:
            if ctx.tier == "quick":
                continue
            sbound = 1
        if si == 5:
            # the module has to vanish after the scan was started and return after the scan passed its name: that takes
            # two switches away from a runnable thread
            sbound = max(sbound, 2)
        res = run_conc_scenario(W, si, sbound, ctx)
        ctx.count("schedules", res["executions"])
        ctx.count("evaluations", res["executions"])
        ctx.count("states", res["points"])
        ctx.count("transitions", res["points"])
        ctx.count("traces_validated_against_impl", res["executions"])
        ctx.count("distinct_nontrivial", res["distinct_outcomes"])
        ctx.count("distinct_outcomes", res["distinct_outcomes"])
        ctx.sample({"leg": "conc", "scenario": si, "schedules": res["executions"], "points": res["points"],
                    "distinct_outcomes": res["distinct_outcomes"], "preemption_bound": sbound})
        for choices, problems in res["violations"]:
            ctx.violation({"leg": "conc", "scenario": si, "choices": choices}, "; ".join(problems)[:1200], "conc:" + problems[0].split(" ")[0])
    W.reset(dict((n, "neither") for n in NAMES))


def run(ctx):
    if ctx.args.get("leg") == "conc":
        run_conc(ctx)
    else:
        run_seq(ctx)


def replay(case):
    W = World()
    if case.get("leg") == "seq":
        problems, ref = replay_history(W, case["kinds"], [tuple(o) for o in case["hist"]])
        return [{"detail": p} for p in problems]
    from vlib import schedx
    out = []

    class C(object):
        pass
    # re-run exactly that schedule
    si = case["scenario"]
    orig_explore = schedx.explore

    def one(make, check, bound, on_exec=None, max_execs=None, first_prefix=()):
        s = make()
        ex = s.run(tuple(case["choices"]))
        if ex.diverged:
            raise schedx.HarnessError(ex.diverged)
        probs = (["deadlock"] if ex.deadlock else []) + check(s, ex)
        return {"executions": 1, "points": len(ex.points), "violations": [(case["choices"], probs)] if probs else [], "capped": False, "distinct_outcomes": 1}
    schedx.explore = one
    try:
        res = run_conc_scenario(W, si, 0, None)
    finally:
        schedx.explore = orig_explore
    for choices, problems in res["violations"]:
        out.append({"detail": "; ".join(problems)})
    return out
