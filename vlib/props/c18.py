"""C18 - tree formatting is well-formed; reading it back recovers the Stack's structure.
E5 `treespace`: synthetic Stack trees built from real frames with all combinations of context fields,
inner stacks, child contexts, child task stacks, hidden flags, leaf and error x all 8 option combinations.
An independent reader rebuilds the nesting from the box-drawing prefixes of the Unicode text.  3.9 compatible."""
import itertools
import linecache
import re
import sys

LEVEL = "exploration"
RULE = ("Part 1: one frame, one context with EVERY combination of {is_exiting, start_line, description, varname, obj, hide} x "
        "inner_stack {none, one frame, frames+leaf+error} x children {none, context, stub stack, populated stack, rootless stack, "
        "context+populated, populated+context, hidden context+context} x 8 option combinations. Part 2: stacks of 0..2 frames x "
        "0..2 contexts per frame drawn from nested templates (depth <= D) x leaf x error x hidden flags x 8 options. For each: "
        "format() lines are single newline-terminated lines; str(x) is their concatenation; an independent reader tokenises the "
        "box-drawing prefix of every Unicode line, builds the indentation tree (parent = nearest earlier line with a shorter "
        "prefix) and must obtain exactly the object's tree of frames / contexts / inner stacks / child contexts / child stacks / "
        "code lines / leaf / error with the right marker kinds; the ascii_only text must equal the Unicode text with every "
        "prefix token mapped through the fixed table and be pure ASCII; hidden frames/contexts appear iff show_hidden_frames; "
        "show_contexts=False prints only the frame series. evaluations = (tree, options) pairs; distinct_nontrivial = distinct trees.")
ASSUMPTIONS = ["names, source lines, descriptions and reprs are single-line ASCII that do not start with a box-drawing token",
               "a child context and a frameless child stack are one node kind in the text (both are a line introduced by the child marker)"]


def legs(tier):
    from vlib.runner import Leg
    n = 2 if tier == "quick" else 6
    return [Leg(v, n) for v in ("3.12", "3.11", "3.10", "3.9")]


def bounds(tier):
    return {"depth": 2 if tier == "quick" else 3, "width": 2}


FILENAME = "<c18-synthetic>"
_W = {}


def world():
    if _W:
        return _W
    lines = []
    nfn = 12
    for i in range(nfn):
        lines.append("def fn_%d():\n" % i)
        lines.append("    yield 'CODE%d'\n" % i)
    for i in range(12):
        lines.append("# WITHLINE%d\n" % i)
    src = "".join(lines)
    linecache.cache[FILENAME] = (len(src), None, lines, FILENAME)
    ns = {"__name__": "c18mod"}
    exec(compile(src, FILENAME, "exec"), ns)
    gens = []
    for i in range(nfn):
        g = ns["fn_%d" % i]()
        next(g)
        gens.append(g)
    _W["gens"] = gens
    _W["withline"] = lambda k: 2 * nfn + 1 + k
    return _W


class Obj(object):
    def __init__(s, name):
        s.name = name

    def __repr__(s):
        return s.name


class Boom(Exception):
    pass


UTOK = ["╠ ", "║ ", "╚ ", "├ ", "│ ", "├─", "─ ", "  ", "└ "]
U2A = {"╠ ": "+ ", "║ ": "| ", "╚ ": "+ ", "├ ": ". ", "│ ": "  ", "├─": "  ", "─ ": ". ", "  ": "  ", "└ ": "` "}
FRAME_START, FRAME_CONT, LEAF, CTX_START, CTX_CONT, CHILD_START, CHILD_IND, BLANK2, CODE = UTOK


def tokenize(line):
    toks = []
    i = 0
    while line[i:i + 2] in U2A:
        # two spaces followed by the error block text is content of an error line, not structure... it is still
        # indentation: keep it as a token, the error lines are classified by content afterwards
        toks.append(line[i:i + 2])
        i += 2
    return toks, line[i:]


ERR_RE = re.compile(r"^(Error while extracting stack:|[A-Za-z_.]*Boom\b|Boom\b|.*Error\b|\+|\|)")


def read_tree(lines, problems):
    """Independent reader: returns nested nodes [kind, content, children] from prefix structure alone."""
    root = ["ROOT", "", []]
    stack = [(-1, root)]
    in_error_depth = None
    for ln in lines:
        body = ln[:-1]
        toks, content = tokenize(body)
        if not content.strip():
            continue
        depth = len(toks)
        last = toks[-1] if toks else ""
        if content.startswith("Error while extracting stack:"):
            kind = "E"
            in_error_depth = depth
        elif in_error_depth is not None and depth >= in_error_depth and last == BLANK2 and not content.startswith("fn_") and "WITHLINE" not in content:
            # continuation of the error block (traceback text)
            continue
        else:
            in_error_depth = None
            if last == FRAME_START:
                kind = "F"
            elif last == LEAF:
                kind = "L"
            elif last == CTX_START:
                kind = "C"
            elif last == CHILD_IND:
                kind = "N"
                if len(toks) >= 2 and toks[-2] == CHILD_START:
                    pass
            elif last == CODE:
                kind = "K"
            elif depth == 0:
                kind = "H"
            else:
                kind = "?"
                problems.append("line %r: cannot classify (last prefix token %r)" % (body, last))
        if kind != "E" and toks:
            # prefix grammar of a context block: the trunk marker for a child entry ("├─") is always directly followed by
            # the child indicator ("─ "), and a child indicator follows either that trunk marker or plain indentation
            for ti, tk in enumerate(toks):
                if tk == CHILD_START and (ti + 1 >= len(toks) or toks[ti + 1] != CHILD_IND):
                    problems.append("line %r: trunk marker for a child entry not followed by the child indicator (prefix %r)" % (body, toks))
                    break
                if tk == CHILD_IND and ti > 0 and toks[ti - 1] not in (CHILD_START, BLANK2):
                    problems.append("line %r: child indicator after %r (prefix %r)" % (body, toks[ti - 1], toks))
                    break
        while stack and stack[-1][0] >= depth:
            stack.pop()
        node = [kind, content, []]
        stack[-1][1][2].append(node)
        stack.append((depth, node))
    return root


def simplify(node):
    return [node[0], node[1], [simplify(c) for c in node[2]]]


# ------------------------------------------------------------------ expected tree (independent walk of the object)
def ctx_text(c, parent):
    text = ""
    if c.start_line is not None and parent is not None:
        text = linecache.getline(FILENAME, c.start_line).strip()
    if not text:
        text = c.description if c.description else ("async with <???>:" if c.is_async else "with <???>:")
    return text


def ctx_full_text(c, parent, is_child):
    """the whole entry line of a context: its text plus the trailing note `  # name: Type (line N)`; the line note is
    given for a frame's own contexts (wherever that frame sits in the tree) and never for child-context entries"""
    text = ctx_text(c, parent)
    parts = []
    if c.obj is not None:
        parts.append("%s: %s" % (c.varname or "_", type(c.obj).__name__))
    elif c.varname is not None:
        parts.append("%s" % c.varname)
    if not is_child and c.start_line is not None:
        parts.append("(line %d)" % c.start_line)
    if parts:
        text += "  # " + " ".join(parts)
    return text


def exp_stack_nodes(st, opts):
    out = []
    for f in st.frames:
        if f.hide and not opts["show_hidden_frames"]:
            continue
        kids = []
        if opts["show_contexts"]:
            for c in f.contexts:
                if c.hide and not opts["show_hidden_frames"]:
                    continue
                kids.append(["C", ctx_full_text(c, f, False), exp_ctx_nodes(c, opts), "exact"])
        if not (f.contexts and f.contexts[-1].is_exiting):
            code = linecache.getline(FILENAME, f.lineno).strip()
            if code and not f.hide_line:
                kids.append(["K", code, []])
        out.append(["F", "%s in c18mod at %s:%d" % (f.pyframe.f_code.co_name, FILENAME, f.lineno), kids])
    if st.leaf is not None:
        out.append(["L", repr(st.leaf), []])
    if st.error is not None:
        out.append(["E", "Error while extracting stack:", []])
    return out


def exp_ctx_nodes(c, opts):
    out = []
    if c.inner_stack is not None:
        out += exp_stack_nodes(c.inner_stack, opts)
    for ch in c.children:
        if hasattr(ch, "frames"):
            text = repr(ch.root) if ch.root is not None else "<unidentified child>"
            out.append(["N", text, exp_stack_nodes(ch, opts)])
        else:
            if ch.hide and not opts["show_hidden_frames"]:
                continue
            out.append(["N", ctx_full_text(ch, None, True), exp_ctx_nodes(ch, opts), "exact"])
    return out


def trees_equal(got, exp, path, problems):
    if len(got) != len(exp):
        problems.append("%s: %d nodes read back %r, object has %d %r" % (path, len(got), [(g[0], g[1][:25]) for g in got], len(exp), [(e[0], e[1][:25]) for e in exp]))
        return
    for i, (g, e) in enumerate(zip(got, exp)):
        if g[0] != e[0]:
            problems.append("%s[%d]: read back kind %s (%r), object has %s (%r)" % (path, i, g[0], g[1][:40], e[0], e[1][:40]))
            continue
        if len(e) > 3 and e[3] == "exact":
            if g[1] != e[1]:
                problems.append("%s[%d]: context entry reads %r, the object says %r" % (path, i, g[1][:90], e[1][:90]))
        elif not g[1].startswith(e[1]):
            problems.append("%s[%d]: text %r does not start with %r" % (path, i, g[1][:60], e[1][:60]))
        trees_equal(g[2], e[2], "%s[%d]" % (path, i), problems)


# ------------------------------------------------------------------ object construction
def mk_frame(k, hide=False, contexts=()):
    from stackscope import Frame
    g = world()["gens"][k % 12]
    return Frame(pyframe=g.gi_frame, hide=hide, contexts=list(contexts))


def _exception_group():
    import builtins
    eg = getattr(builtins, "ExceptionGroup", None)
    if eg is None:
        from exceptiongroup import ExceptionGroup as eg
    return eg


def mk_stack(spec):
    """spec: dict(frames=[frame specs], leaf=bool, error=bool, root=str|None)"""
    from stackscope import Stack
    frames = [mk_frame_spec(f) for f in spec.get("frames", [])]
    err = None
    if spec.get("error"):
        kind = spec.get("error")
        try:
            if kind == "multi":
                raise Boom("boom %s:\n  second line of the message\nthird line" % spec.get("root"))
            if kind == "chained":
                # an error with an explicit cause which itself was raised while handling another one
                try:
                    try:
                        raise KeyError("root cause %s" % spec.get("root"))
                    except KeyError:
                        raise ValueError("while handling %s" % spec.get("root"))
                except ValueError as inner:
                    raise Boom("boom %s" % spec.get("root")) from inner
            if kind == "group":
                # what extract() records when several hooks fail: an ExceptionGroup of errors that carry tracebacks
                subs = []
                for j in range(2):
                    try:
                        raise Boom("boom %s #%d" % (spec.get("root"), j))
                    except Boom as sub:
                        subs.append(sub)
                raise _exception_group()("multiple errors encountered while extracting stack", subs)
            raise Boom("boom %s" % spec.get("root"))
        except Exception as ex:
            err = ex
    root = Obj(spec["root"]) if spec.get("root") else None
    return Stack(root=root, frames=frames, leaf=(Obj("LEAF%s" % spec.get("root", "")) if spec.get("leaf") else None), error=err)


def mk_frame_spec(fs):
    return mk_frame(fs["k"], hide=fs.get("hide", False), contexts=[mk_ctx(c) for c in fs.get("contexts", [])])


def mk_ctx(cs):
    from stackscope import Context
    c = Context(obj=(Obj("OBJ%s" % cs["id"]) if cs.get("obj") else None), is_async=cs.get("is_async", False),
                is_exiting=cs.get("exiting", False), varname=("var%s" % cs["id"] if cs.get("varname") else None),
                start_line=(world()["withline"](cs["id"] % 12) if cs.get("start_line") else None),
                description=("DESC%s" % cs["id"] if cs.get("description") else None), hide=cs.get("hide", False))
    if cs.get("inner") is not None:
        c.inner_stack = mk_stack(cs["inner"])
    c.children = [mk_stack(ch["stack"]) if "stack" in ch else mk_ctx(ch) for ch in cs.get("children", [])]
    return c


OPTS = [dict(ascii_only=a, show_contexts=c, show_hidden_frames=h) for a in (False, True) for c in (False, True) for h in (False, True)]


def check_stack(st, problems):
    for opts in OPTS:
        uopts = dict(opts)
        uopts["ascii_only"] = False
        try:
            lines = st.format(**opts)
            ulines = st.format(**uopts)
        except Exception as ex:
            problems.append("format(%r) raised %r" % (opts, ex))
            continue
        for ln in lines:
            if not isinstance(ln, str) or not ln.endswith("\n") or "\n" in ln[:-1]:
                problems.append("format(%r): %r is not a single newline-terminated line" % (opts, ln))
        if opts["ascii_only"]:
            # same text with each prefix token mapped
            if len(lines) != len(ulines):
                problems.append("ascii and unicode outputs have different numbers of lines (%r)" % (opts,))
            else:
                for al, ul in zip(lines, ulines):
                    toks, content = tokenize(ul[:-1])
                    exp = "".join(U2A[t] for t in toks) + content + "\n"
                    if al != exp:
                        problems.append("ascii line %r is not the unicode line %r with prefix tokens mapped (%r)" % (al, ul, exp))
                    try:
                        al.encode("ascii")
                    except UnicodeEncodeError:
                        problems.append("ascii_only output contains non-ASCII: %r" % (al,))
            continue
        rp = []
        tree = read_tree(lines[1:], rp)
        problems += ["[%r] %s" % (opts, p) for p in rp]
        exp = exp_stack_nodes(st, opts)
        tp = []
        trees_equal(tree[2], exp, "stack", tp)
        problems += ["[%r] %s" % (opts, p) for p in tp]
        hdr = lines[0]
        if st.root is not None:
            if repr(st.root) not in hdr:
                problems.append("header %r lacks the root" % hdr)
    if str(st) != "".join(st.format()):
        problems.append("str(x) != ''.join(x.format())")
    for f in st.frames:
        fl = f.format()
        if not all(l.endswith("\n") and "\n" not in l[:-1] for l in fl) or str(f) != "".join(fl):
            problems.append("Frame.format/str inconsistent")
        for c in f.contexts:
            cl = c.format()
            if not all(l.endswith("\n") and "\n" not in l[:-1] for l in cl) or str(c) != "".join(cl):
                problems.append("Context.format/str inconsistent")


# ------------------------------------------------------------------ enumeration
INNERS = [None, {"frames": [{"k": 5}], "root": "IN1"}, {"frames": [{"k": 6}, {"k": 7, "contexts": [{"id": 9, "description": True}]}], "leaf": True, "error": True, "root": "IN2"},
          {"frames": [], "root": "IN3"}, {"frames": [], "leaf": True, "root": "IN4"}, {"frames": [], "error": True, "root": "IN5"},
          {"frames": [], "leaf": True, "error": True, "root": None}, {"frames": [{"k": 5, "hide": True}], "leaf": True, "root": "IN6"},
          {"frames": [{"k": 6}], "error": "multi", "root": "IN7"}, {"frames": [{"k": 6}], "error": "chained", "root": "IN8"},
          {"frames": [], "error": "group", "root": "IN9"}]
CHILDSETS = [
    [],
    [{"id": 20, "description": True}],
    [{"stack": {"frames": [], "root": "TASKSTUB"}}],
    [{"stack": {"frames": [{"k": 8}], "root": "TASKPOP"}}],
    [{"stack": {"frames": [{"k": 8}], "root": None}}],
    [{"id": 21, "description": True}, {"stack": {"frames": [{"k": 9}], "root": "TASKPOP2"}}],
    [{"stack": {"frames": [{"k": 9}], "root": "TASKPOP3", "leaf": True}}, {"id": 22, "obj": True}],
    [{"id": 23, "description": True, "hide": True}, {"id": 24, "description": True, "varname": True}],
    [{"stack": {"frames": [{"k": 8}], "root": "TP4"}}, {"stack": {"frames": [{"k": 9}], "root": "TP5", "error": True}}],
    [{"id": 25, "description": True, "children": [{"id": 26, "description": True}, {"stack": {"frames": [{"k": 10}], "root": "GRANDTASK"}}]}],
    [{"id": 27, "obj": True, "inner": {"frames": [{"k": 11}], "root": "CHILDINNER"}}],
    [{"stack": {"frames": [], "root": "STUBLEAF", "leaf": True}}, {"stack": {"frames": [], "root": "STUBERR", "error": True}}],
    [{"id": 28, "description": True, "inner": {"frames": [], "leaf": True, "error": True, "root": "CHILDINNER2"}}],
    [{"stack": {"frames": [{"k": 8}], "root": "TASKMULTIERR", "error": "multi"}}, {"id": 29, "description": True}],
    # child contexts that have children of their own and are followed by a sibling (order of a flat projection matters)
    [{"id": 30, "description": True, "children": [{"id": 31, "description": True},
                                                   {"id": 32, "description": True, "children": [{"id": 33, "description": True}]}]},
     {"id": 34, "description": True}],
    # real `with` contexts (with a start line) in frames that sit below a child context: in its inner stack, in a task
    # stack under it, and under a grandchild context
    [{"id": 35, "description": True,
      "inner": {"frames": [{"k": 11, "contexts": [{"id": 36, "start_line": True, "obj": True}]}], "root": "DEEPINNER"},
      "children": [{"stack": {"frames": [{"k": 10, "contexts": [{"id": 37, "start_line": True}]}], "root": "DEEPTASK2"}},
                   {"id": 38, "description": True, "start_line": True,
                    "inner": {"frames": [{"k": 9, "contexts": [{"id": 39, "start_line": True, "varname": True}]}], "root": "DEEPINNER2"}}]}],
]


def part1():
    flags = ["exiting", "start_line", "description", "varname", "obj", "hide"]
    for combo in itertools.product((False, True), repeat=len(flags)):
        base = dict(zip(flags, combo))
        for ii, inner in enumerate(INNERS):
            for ci, kids in enumerate(CHILDSETS):
                c = dict(base)
                c["id"] = 1
                c["inner"] = inner
                c["children"] = kids
                c["is_async"] = bool((ii + ci) % 2)
                yield {"frames": [{"k": 0, "contexts": [c]}], "root": "ROOT1"}


def ctx_templates(depth):
    t = [
        {"id": 2, "description": True},
        {"id": 3, "start_line": True, "varname": True, "obj": True},
        {"id": 4, "exiting": True, "start_line": True},
        {"id": 5, "hide": True, "description": True},
    ]
    if depth >= 2:
        t.append({"id": 6, "start_line": True, "inner": {"frames": [{"k": 3, "contexts": [{"id": 7, "description": True}]}], "root": "INNERA"},
                  "children": [{"id": 8, "description": True}]})
        t.append({"id": 10, "obj": True, "children": [{"stack": {"frames": [{"k": 4, "contexts": [{"id": 11, "start_line": True}]}], "root": "TASKA"}},
                                                       {"stack": {"frames": [], "root": "TASKB"}}]})
    if depth >= 3:
        t.append({"id": 12, "description": True, "inner": {"frames": [{"k": 2, "contexts": [
            {"id": 13, "obj": True, "inner": {"frames": [{"k": 1}], "root": "DEEP", "leaf": True},
             "children": [{"stack": {"frames": [{"k": 5, "contexts": [{"id": 14, "description": True, "children": [{"id": 15, "description": True}]}]}], "root": "DEEPTASK", "error": True}}]}]}],
            "root": "INNERB", "error": True}})
    return t


def part2(depth):
    T = ctx_templates(depth)
    ctxsets = [[]] + [[t] for t in T] + [[a, b] for a in T for b in T if a is not b]
    for nframes in (0, 1, 2):
        for cs in itertools.product(ctxsets, repeat=nframes):
            for hides in itertools.product((False, True), repeat=nframes):
                for leaf in (False, True):
                    for error in (False, True, "multi", "chained", "group"):
                        frames = [{"k": i, "hide": hides[i], "contexts": cs[i]} for i in range(nframes)]
                        yield {"frames": frames, "leaf": leaf, "error": error, "root": "ROOT2" if (nframes + leaf) % 2 else None}


def run(ctx):
    world()
    idx = 0
    for spec in itertools.chain(part1(), part2(bounds(ctx.tier)["depth"])):
        idx += 1
        if not ctx.mine(idx):
            continue
        st = mk_stack(spec)
        problems = []
        check_stack(st, problems)
        ctx.count("evaluations", len(OPTS))
        ctx.count("distinct_nontrivial")
        ctx.count("trees")
        if problems:
            ctx.violation({"spec": spec}, "; ".join(problems)[:1500], problems[0].split("]")[-1].strip().split(":")[0][:30])
        if idx % 4999 == 0:
            ctx.sample({"spec": spec, "text": "".join(st.format())[:600]})


def replay(case):
    world()
    st = mk_stack(case["spec"])
    problems = []
    check_stack(st, problems)
    return [{"detail": p} for p in problems[:8]]
