"""C19 - standard-library summaries and flat format faithfully project the Stack.
The C18 tree space plus real stacks extracted from E1 programs and E2 chains, x all combinations of
show_contexts, show_hidden_frames, capture_locals; oracle = a direct transcription of the statement.
3.9 compatible."""
import gc
import itertools
import linecache
import pickle
import traceback
import types
import warnings

from vlib.props import c18

LEVEL = "exploration"
RULE = ("Every synthetic Stack tree of the C18 space (all context-field combinations x inner stacks x child sets; structural trees "
        "up to depth D) and real stacks extracted from every E1 program of AST size <= 3 (all suspension points) and every E2 chain "
        "of length <= 2, x show_contexts x show_hidden_frames x capture_locals (and, for every stack with >= 2 frames, every real stack and every 7th tree, under sys.tracebacklimit in {unset, 0, 1, -1}): as_stdlib_summary() must equal an independent "
        "transcription (one FrameSummary per visible frame with filename/lineno/name/line/locals; with contexts: an entry at the "
        "with-line per visible context, then its inner stack, then its child contexts; the frame's own entry omitted iff its last "
        "context is exiting); the summary pickles and round-trips equal; no frame object is reachable from it; format_flat() is the "
        "header + StackSummary.format() + leaf and error lines. evaluations = (stack, options) pairs; distinct_nontrivial = distinct stacks.")
ASSUMPTIONS = ["child task stacks (Stack objects among Context.children) are not part of the flat projection (only child contexts are)"]


RULE += ' Round 9: the same source under three file names, summarised in every order of length 2 and 3.'


def legs(tier):
    from vlib.runner import Leg
    n = 2 if tier == "quick" else 6
    return [Leg(v, n) for v in ("3.12", "3.11", "3.10", "3.9")]


def bounds(tier):
    return {"tree_depth": 2 if tier == "quick" else 3, "program_size": 3, "chain_links": 2}


def name_and_type(c):
    if c.obj is not None:
        return "%s: %s" % (c.varname or "_", type(c.obj).__name__)
    if c.varname is not None:
        return "%s" % c.varname
    return ""


def frame_entry(f, capture_locals):
    loc = None
    if capture_locals:
        loc = dict((k, repr(v)) for k, v in f.pyframe.f_locals.items())
    return {"filename": f.pyframe.f_code.co_filename, "lineno": f.lineno, "name": f.pyframe.f_code.co_name, "locals": loc,
            "line": linecache.getline(f.pyframe.f_code.co_filename, f.lineno, f.pyframe.f_globals).strip()}


def ctx_entries(c, parent, show_hidden, capture_locals, override=None):
    if c.hide and not show_hidden:
        return []
    info = name_and_type(c)
    lineno = c.start_line or parent.lineno
    if override is not None:
        line = override
    elif c.start_line is None:
        line = ""
    else:
        line = linecache.getline(parent.pyframe.f_code.co_filename, lineno, parent.pyframe.f_globals).strip()
    out = [{"filename": parent.pyframe.f_code.co_filename, "lineno": lineno,
            "name": parent.pyframe.f_code.co_name + ((" (%s)" % info) if info else ""),
            "locals": ({"<context manager>": c.description or repr(c.obj)} if capture_locals else None), "line": line}]
    if c.inner_stack is not None:
        out += stack_entries(c.inner_stack, True, show_hidden, capture_locals)
    for ch in c.children:
        if not hasattr(ch, "frames"):
            out += ctx_entries(ch, parent, show_hidden, capture_locals, "# " + (ch.description or repr(ch)))
    return out


def stack_entries(st, show_contexts, show_hidden, capture_locals):
    out = []
    for f in st.frames:
        if f.hide and not show_hidden:
            continue
        if show_contexts:
            for c in f.contexts:
                out += ctx_entries(c, f, show_hidden, capture_locals)
            if not (f.contexts and f.contexts[-1].is_exiting):
                out.append(frame_entry(f, capture_locals))
        else:
            out.append(frame_entry(f, capture_locals))
    return out


def reaches_frame(obj):
    seen = set()
    todo = [obj]
    while todo:
        o = todo.pop()
        if id(o) in seen:
            continue
        seen.add(id(o))
        if isinstance(o, types.FrameType):
            return True
        if isinstance(o, (types.ModuleType, type, types.FunctionType, types.CodeType)):
            continue
        todo.extend(gc.get_referents(o))
    return False


def check(st, problems, limits=(None,)):
    """limits: values of the interpreter-wide sys.tracebacklimit under which the projection is taken; it must not matter."""
    import sys
    n = 0
    had = hasattr(sys, "tracebacklimit")
    old = getattr(sys, "tracebacklimit", None)
    try:
        for lim in limits:
            if lim is None:
                if hasattr(sys, "tracebacklimit"):
                    del sys.tracebacklimit
            else:
                sys.tracebacklimit = lim
            before = len(problems)
            n += check_once(st, problems)
            if lim is not None:
                for i in range(before, len(problems)):
                    problems[i] = "[sys.tracebacklimit=%r] %s" % (lim, problems[i])
    finally:
        if had:
            sys.tracebacklimit = old
        elif hasattr(sys, "tracebacklimit"):
            del sys.tracebacklimit
    return n


def check_once(st, problems):
    n = 0
    for sc, sh, cl in itertools.product((False, True), repeat=3):
        n += 1
        tag = "show_contexts=%r show_hidden_frames=%r capture_locals=%r" % (sc, sh, cl)
        try:
            summ = st.as_stdlib_summary(show_contexts=sc, show_hidden_frames=sh, capture_locals=cl)
        except Exception as ex:
            problems.append("%s: as_stdlib_summary raised %r" % (tag, ex))
            continue
        exp = stack_entries(st, sc, sh, cl)
        got = [{"filename": e.filename, "lineno": e.lineno, "name": e.name, "locals": e.locals, "line": (e.line or "")} for e in summ]
        if not isinstance(summ, traceback.StackSummary):
            problems.append("%s: result is %r, not a StackSummary" % (tag, type(summ)))
        if len(got) != len(exp):
            problems.append("%s: %d entries %r, expected %d %r" % (tag, len(got), [(g["name"], g["lineno"]) for g in got], len(exp), [(e["name"], e["lineno"]) for e in exp]))
        else:
            for i, (g, e) in enumerate(zip(got, exp)):
                for k in ("filename", "lineno", "name", "locals", "line"):
                    if k == "locals" and not e[k] and g[k] is None:
                        continue  # traceback.FrameSummary stores an empty mapping as None
                    if g[k] != e[k]:
                        problems.append("%s: entry %d %s is %r, expected %r" % (tag, i, k, g[k], e[k]))
        try:
            back = pickle.loads(pickle.dumps(summ))
            b = [(e.filename, e.lineno, e.name, e.line, e.locals) for e in back]
            a = [(e.filename, e.lineno, e.name, e.line, e.locals) for e in summ]
            if a != b or type(back) is not type(summ):
                problems.append("%s: pickle round trip differs" % tag)
        except Exception as ex:
            problems.append("%s: pickling the summary raised %r" % (tag, ex))
        if reaches_frame(summ):
            problems.append("%s: a frame object is reachable from the summary" % tag)
    for sc in (False, True):
        n += 1
        try:
            flat = st.format_flat(show_contexts=sc)
        except Exception as ex:
            problems.append("format_flat(show_contexts=%r) raised %r" % (sc, ex))
            continue
        exp = [("stackscope.Stack of %r (most recent call last):\n" % (st.root,)) if st.root is not None else "stackscope.Stack (most recent call last):\n"]
        if st.frames:
            exp += st.as_stdlib_summary(show_contexts=sc).format()
        if st.leaf is not None:
            exp.append("  Target of innermost frame: %r\n" % (st.leaf,))
        if st.error is not None:
            exp.append("  Error while extracting stack:\n")
            for line in traceback.format_exception(type(st.error), st.error, st.error.__traceback__):
                if line != "Traceback (most recent call last):\n":
                    for sub in line.splitlines(True):
                        exp.append("  " + sub)
        if list(flat) != exp:
            problems.append("format_flat(show_contexts=%r) is %r, expected %r" % (sc, list(flat)[:6], exp[:6]))
    return n


def real_stacks(tier):
    """(label, stack) for real extractions: E1 programs at every suspension, E2 chains at every position."""
    import stackscope
    from vlib import progspace as ps
    from vlib import chainspace as cs
    b = bounds(tier)
    g = ps.grammar("core")

    class Obs(object):
        wants_probe = False

        def __init__(self):
            self.out = []

        def on_suspend(self, rt, target, tag, n):
            with warnings.catch_warnings():
                warnings.simplefilter("ignore")
                self.out.append(stackscope.extract(target))
    for body in ps.programs(g, b["program_size"], 3):
        for kind in ("coro", "agen"):
            if not ps.kind_ok(body, kind) or not ps.nontrivial(body, kind):
                continue
            src, withs = ps.render(body, kind)
            fn = ps.compile_prog(src, filename="<c19prog>")
            linecache.cache["<c19prog>"] = (len(src), None, src.splitlines(True), "<c19prog>")
            obs = Obs()
            ps.drive(fn, kind, (), obs)
            for i, st in enumerate(obs.out):
                yield {"leg": "prog", "src": src, "kind": kind, "obs": i}, st
    for spec in cs.specs(b["chain_links"]):
        ch = cs.build(*spec)
        try:
            n, done = cs.advance(ch, 1)
            if done:
                continue
            with warnings.catch_warnings():
                warnings.simplefilter("ignore")
                st = stackscope.extract(ch.root)
            yield {"leg": "chain", "spec": spec}, st
        finally:
            ch.close()


TWIN_SRC = """import contextlib
@contextlib.contextmanager
def res(tag):
    yield tag
def inner():
    with res("r") as r:
        yield r
def job():
    x = 1
    yield from inner()
"""


def twin_stacks(order):
    """The same source text compiled under several file names (vendored copies, files made from one template): the
    code objects are equal by value but every frame must be summarised under its own file name. `order` = the sequence of
    file indices in which the suspended generators are extracted and summarised."""
    import stackscope
    gens = {}
    for i in sorted(set(order)):
        fname = "<c19 twin %d>" % i
        linecache.cache[fname] = (len(TWIN_SRC), None, TWIN_SRC.splitlines(True), fname)
        ns = {"__name__": "c19twin%d" % i}
        exec(compile(TWIN_SRC, fname, "exec"), ns)
        g = ns["job"]()
        next(g)
        gens[i] = g
    for i in order:
        with warnings.catch_warnings():
            warnings.simplefilter("ignore")
            yield stackscope.extract(gens[i])
    for g in gens.values():
        g.close()


def check_twins(order, problems):
    n = 0
    for k, st in enumerate(twin_stacks(order)):
        fnames = set(f.pyframe.f_code.co_filename for f in st.frames)
        if fnames != {"<c19 twin %d>" % order[k]} or len(st.frames) != 2:
            problems.append("twin extraction %d of %r is not the expected two-frame stack: %r" % (k, order, st))
            continue
        before = len(problems)
        n += check(st, problems)
        for j in range(before, len(problems)):
            problems[j] = "[file %d, step %d of order %r] %s" % (order[k], k, order, problems[j])
    return n


def run(ctx):
    c18.world()
    idx = 0
    for order in itertools.chain.from_iterable(itertools.product(range(3), repeat=r) for r in (2, 3)):
        idx += 1
        if not ctx.mine(idx):
            continue
        problems = []
        n = check_twins(list(order), problems)
        ctx.count("evaluations", n)
        ctx.count("distinct_nontrivial")
        ctx.count("twin_file_orders")
        if problems:
            ctx.violation({"leg": "twins", "order": list(order)}, "; ".join(problems)[:1500], "twins")
    for spec in itertools.chain(c18.part1(), c18.part2(bounds(ctx.tier)["tree_depth"])):
        idx += 1
        if not ctx.mine(idx):
            continue
        st = c18.mk_stack(spec)
        problems = []
        n = check(st, problems, (None, 0, 1, -1) if idx % 7 == 0 or len(spec.get("frames", [])) >= 2 else (None,))
        ctx.count("evaluations", n)
        ctx.count("distinct_nontrivial")
        ctx.count("synthetic_trees")
        if problems:
            ctx.violation({"leg": "tree", "spec": spec}, "; ".join(problems)[:1500], problems[0].split(":")[1].strip()[:30] if ":" in problems[0] else "x")
        if idx % 4999 == 0:
            ctx.sample({"leg": "tree", "spec": spec})
    for case, st in real_stacks(ctx.tier):
        idx += 1
        if not ctx.mine(idx):
            continue
        problems = []
        n = check(st, problems, (None, 0, 1, -1))
        ctx.count("evaluations", n)
        ctx.count("distinct_nontrivial")
        ctx.count("real_stacks")
        if problems:
            ctx.violation(case, "; ".join(problems)[:1500], "real")
        if idx % 1999 == 0:
            ctx.sample(case)


def replay(case):
    c18.world()
    problems = []
    if case.get("leg") == "twins":
        check_twins(case["order"], problems)
    elif case.get("leg") == "tree":
        check(c18.mk_stack(case["spec"]), problems, (None, 0, 1, -1))
    else:
        for c, st in real_stacks("quick"):
            if c == case or (c.get("leg") == case.get("leg") and c.get("src") == case.get("src") and c.get("obs") == case.get("obs")
                             and [list(x) if isinstance(x, (list, tuple)) else x for x in c.get("spec", [])] == case.get("spec", [])):
                check(st, problems, (None, 0, 1, -1))
                break
    return [{"detail": p} for p in problems[:8]]
