"""C20 - fallback (referents) analysis is a sound ordered over-approximation; failures only warn.
Leg A: the C01 program space observed in referents mode at every suspension.
Leg B: an exception injected at every line event executed inside the trickery analysis.
Leg C: all sequences of set_trickery_enabled values / extractions issued from two threads.
3.9 compatible."""
import itertools
import sys
import threading
import warnings

from vlib import progspace as ps

LEVEL = "exploration"
RULE = ("A: every program of the C01 space (AST size <= S, three function kinds, all decision paths) observed at every "
        "suspension after set_trickery_enabled(False): truly active managers must be an in-order subsequence of the report with "
        "right obj/is_async, an is_exiting entry iff an exit is in progress, extras only the manager being entered/exited; bodies of size <= 3 also with one re-entrant manager object per kind serving every with-block (the same object then is active several times in a frame). "
        "B: for a corpus of programs/positions, an exception raised by a trace function at the n-th line event inside "
        "stackscope's trickery analysis for EVERY n (found by counting a fault-free run): must produce an InspectionWarning, no "
        "exception, and a result meeting the same over-approximation. C: every sequence of length <= 4 over "
        "{set(True), set(False), set(None), extract} x {thread 1, thread 2}; observed mode (start_line is None or not) must "
        "equal the last value set (None = auto-detect = trickery on CPython). D: set_trickery_enabled calls racing the auto-detection that runs "
        "inside the first extraction: all schedules with <= 2 preemptions (line granularity inside the detection routine and the "
        "setter, the mode lock a model lock); an explicit setting must never be overridden by the detection. evaluations = observations; "
        "distinct_nontrivial = distinct (program, kind) + injection points + sequences.")
ASSUMPTIONS = ["managers' __exit__/__aexit__ are plain methods named __exit__/__aexit__ (documented limitation of the referents analysis)",
               "injection granularity is one source line of stackscope's own modules"]


def params(tier):
    if tier == "quick":
        return {"grammar": "core", "size": 4, "depth": 3, "seq_len": 3, "inject_progs": 5, "inject_kinds": ["coro"]}
    return {"grammar": "full", "size": 4, "depth": 3, "seq_len": 4, "inject_progs": 14, "core_size": 5, "inject_kinds": ["coro", "agen"]}


def bounds(tier):
    return params(tier)


RULE += ' Round 9: every program has locals with hostile == (equal to everything / no truth value).'


def legs(tier):
    from vlib.runner import Leg
    n = 4 if tier == "quick" else 12
    out = []
    for v in ("3.12", "3.11", "3.10", "3.9"):
        out.append(Leg(v, n, args={"leg": "A"}, name=v + "-A"))
        out.append(Leg(v, 3 if tier == "quick" else 8, args={"leg": "B"}, name=v + "-B"))
        out.append(Leg(v, 1, args={"leg": "C"}, name=v + "-C"))
        if v in ("3.12", "3.9"):
            out.append(Leg(v, 3, args={"leg": "D"}, name=v + "-D"))
    return out


KINDS = ("coro", "gen", "agen")


def overapprox(got, rt, withs, obj_known=True):
    """got: list of Context. Returns problems.  (Entries of rt.active are managers, or activations of a re-entrant
    manager: ps.mgr_of() gives the manager object of either.)"""
    problems = []
    active = list(rt.active)
    exiting = rt.exiting
    entering = rt.entering
    ex_obj = ps.mgr_of(exiting) if exiting is not None else None
    en_obj = ps.mgr_of(entering) if entering is not None else None
    r_ex = [c for c in got if c.is_exiting]
    r_non = [c for c in got if not c.is_exiting]
    if exiting is not None:
        if len(r_ex) != 1:
            problems.append("exit of %r in progress but %d is_exiting entries" % (exiting, len(r_ex)))
        else:
            c = r_ex[0]
            if c.is_async != exiting.is_async:
                problems.append("is_exiting entry has is_async=%r for %r" % (c.is_async, exiting))
            if obj_known and c.obj is not ex_obj:
                # extract() hands the frame below the exit to the analysis, whose first argument is the manager
                problems.append("is_exiting entry obj %r is not the exiting manager %r" % (c.obj, exiting))
            if got[-1] is not c:
                problems.append("is_exiting entry is not last")
    else:
        if r_ex:
            problems.append("no exit in progress but is_exiting entries %r" % ([c.obj for c in r_ex],))
    need = [m for m in active if m is not exiting]
    i = 0
    extras = []
    for c in r_non:
        if i < len(need) and c.obj is ps.mgr_of(need[i]):
            if c.is_async != need[i].is_async:
                problems.append("is_async wrong for %r" % (need[i],))
            i += 1
        else:
            extras.append(c)
    if i < len(need):
        problems.append("active managers %r missing or out of order in %r" % (need[i:], [c.obj for c in r_non]))
    for c in extras:
        if not (c.obj is en_obj or c.obj is ex_obj) or c.obj is None:
            problems.append("extra entry %r is neither the manager being entered (%r) nor exited (%r)" % (c.obj, entering, exiting))
        elif c.is_async != c.obj.is_async:
            problems.append("is_async wrong for extra %r" % (c.obj,))
    return problems


class ReferentsObserver(object):
    wants_probe = False

    def __init__(self, withs):
        self.withs = withs
        self.fails = []
        self.nobs = 0

    def on_suspend(self, rt, target, tag, n):
        import stackscope
        from vlib.ctxobs import quiet_extract
        self.nobs += 1
        st, w = quiet_extract(stackscope.extract, target)
        problems = []
        if w:
            problems.append("warning: %s" % str(w[0].message)[:200])
        if st.error is not None:
            problems.append("error: %r" % (st.error,))
        if not st.frames or st.frames[0].pyframe.f_code.co_name != "prog":
            problems.append("first frame is not the target's frame")
        else:
            ctxs = list(st.frames[0].contexts)
            if any(c.start_line is not None for c in ctxs):
                problems.append("mode: start_line set although trickery is disabled")
            problems += overapprox(ctxs, rt, self.withs)
        if problems:
            self.fails.append((tag, n, problems))


def run_A(ctx):
    from vlib.ctxobs import run_program
    from stackscope import lowlevel
    lowlevel.set_trickery_enabled(False)
    p = params(ctx.tier)
    # a failure may depend on what this process analysed before (memoised per-code facts): the replay file therefore names
    # the shard, and --replay re-runs the shard's deterministic sequence up to the failing program
    hist = {"leg": "A", "history": {"tier": ctx.tier, "shard": ctx.shard, "nshards": ctx.nshards, "seed": ctx.seed}}
    seen = set()

    def space():
        g = ps.grammar(p["grammar"])
        for body in ps.programs(g, p["size"], p["depth"]):
            seen.add(body)
            yield body
        if p.get("core_size"):
            g2 = ps.grammar("core")
            for body in ps.programs(g2, p["core_size"], p["depth"]):
                if body not in seen:
                    yield body
    idx = 0
    # programs whose with-blocks are all served by ONE re-entrant manager object per kind (AST size <= 3)
    g3 = ps.grammar("core")
    for body in ps.programs(g3, 3, p["depth"]):
        for kind in KINDS:
            if not ps.kind_ok(body, kind) or not ps.nontrivial(body, kind):
                continue
            idx += 1
            if not ctx.mine(idx):
                continue
            npaths, nobs = run_program(body, kind, ctx, ReferentsObserver, case_extra=dict(hist, ns="reentrant"), ns=ps.NS_REENTRANT)
            ctx.count("reentrant_programs")
            ctx.count("distinct_nontrivial")
            ctx.count("paths", npaths)
            ctx.count("evaluations", nobs)
    for body in space():
        for kind in KINDS:
            if not ps.kind_ok(body, kind):
                continue
            if not ps.nontrivial(body, kind):
                # programs without any with-block are observed too (expected: no contexts): their short-lived code
                # objects pass through the analysis and are freed again, which is the history that an address- or
                # equality-keyed memo of per-code facts would get wrong for the programs that follow
                if not ps.has(body, ("susp",)) or ps.has(body, ps.WITH_KINDS):
                    continue
                idx += 1
                if not ctx.mine(idx):
                    continue
                npaths, nobs = run_program(body, kind, ctx, ReferentsObserver, case_extra=hist)
                ctx.count("withless_programs")
                ctx.count("evaluations", nobs)
                continue
            idx += 1
            if not ctx.mine(idx):
                continue
            npaths, nobs = run_program(body, kind, ctx, ReferentsObserver, case_extra=hist)
            ctx.count("programs")
            ctx.count("distinct_nontrivial")
            ctx.count("paths", npaths)
            ctx.count("evaluations", nobs)
            if idx % 9973 == 0:
                ctx.sample({"leg": "A", "kind": kind, "src": ps.render(body, kind)[0]})


# ------------------------------------------------------------------ leg B: injection
class Injected(Exception):
    pass


INJECT_BODIES = [
    (("awith1", (("susp",),)),),
    (("with1", (("awith1", (("susp",),)),)),),
    (("awith2", (("susp",),)),),
    (("awith1", (("tryexc", (("raise",),), (("susp",),)),)),),
    (("for", (("awith1", (("if", (("brk",),)),)),)),),
    (("awith1", (("if", (("retK",),)),)), ("susp",)),
    (("mixwith2", (("raise",),)),),
    (("tryfin", (("awith1", (("susp",),)),), (("awith1", (("pass",),)),)),),
    (("awith1", (("awith1", (("raise",),)),)),),
    (("while", (("awith1", (("cont",),)),)),),
    (("with3", (("susp",),)),),
    (("awith1n", (("tryfin", (("retK",),), (("susp",),)),)),),
    (("awith1", (("whileelse", (("susp",),), (("pass",),)),)),),
    (("tryexcfin", (("awith1", (("raise",),)),), (("susp",),), (("pass",),)),),
]


def stackscope_code_files():
    import stackscope._lowlevel as ll
    import os
    d = os.path.dirname(ll.__file__)
    return d


class InjectObserver(object):
    """At each suspension: count line events inside the trickery analysis, then re-run the analysis once per
    injection index with a trace function that raises there."""
    wants_probe = False

    def __init__(self, withs, stats):
        self.withs = withs
        self.fails = []
        self.nobs = 0
        self.stats = stats

    def analyse(self, target, inject_at):
        """Run contexts_active_in_frame with tracing; returns (result or exception, warnings, nlines)."""
        from stackscope import lowlevel
        import stackscope._lowlevel as ll
        d = stackscope_code_files()
        self.fired = False
        trick = ll._contexts_active_by_trickery.__code__
        count = [0]
        depth = [0]

        caif = ll.contexts_active_in_frame.__code__
        referents = ll._contexts_active_by_referents.__code__
        avail = ll._check_trickery_available.__code__

        def in_trickery(frame):
            # the injected region: every stackscope function that runs on behalf of contexts_active_in_frame while the
            # trickery mode is on, except the fallback analysis itself and the two dispatchers' own lines
            if frame.f_code is caif or frame.f_code is avail:
                return False
            f = frame
            while f is not None:
                if f.f_code is referents:
                    return False
                if f.f_code is trick or f.f_code is caif:
                    return True
                f = f.f_back
            return False

        def local(frame, event, arg):
            if event == "line":
                k = count[0]
                count[0] += 1
                if k == inject_at:
                    self.fired = "%s:%d" % (frame.f_code.co_name, frame.f_lineno)
                    raise Injected("injected at line event %d (%s:%d)" % (k, frame.f_code.co_name, frame.f_lineno))
            return local

        def tracer(frame, event, arg):
            if event == "call" and frame.f_code.co_filename.startswith(d) and in_trickery(frame):
                return local
            return None
        frame = getattr(target, "cr_frame", None) or getattr(target, "gi_frame", None) or getattr(target, "ag_frame", None)
        import io
        import contextlib
        res = None
        exc = None
        with warnings.catch_warnings(record=True) as w:
            warnings.simplefilter("always")
            buf = io.StringIO()
            with contextlib.redirect_stderr(buf):
                def unraisable(u):
                    # the fault landed in a generator finaliser: the interpreter discards it, the analysis never sees it
                    if isinstance(u.exc_value, Injected):
                        self.fired = False
                        self.stats["in_finalizer"] = self.stats.get("in_finalizer", 0) + 1
                old_hook = sys.unraisablehook
                sys.unraisablehook = unraisable
                sys.settrace(tracer)
                try:
                    res = lowlevel.contexts_active_in_frame(frame, target, None)
                except BaseException as ex:  # noqa
                    exc = ex
                finally:
                    sys.settrace(None)
                    sys.unraisablehook = old_hook
        return res, exc, list(w), count[0]

    def on_suspend(self, rt, target, tag, n):
        from stackscope import lowlevel
        if self.stats.get("selftest"):
            # every run starts from auto-detection, so the self-test of the analysis is inside the injected region too
            lowlevel.set_trickery_enabled(None)
            res, exc, w, nlines = self.analyse(target, -1)
            self.stats["points"] = self.stats.get("points", 0) + nlines
            for k in range(nlines):
                self.nobs += 1
                lowlevel.set_trickery_enabled(None)
                res, exc, w, _ = self.analyse(target, k)
                problems = []
                if not self.fired and exc is None:
                    # lazily initialised code ran fewer lines this time: no fault was injected
                    self.stats["not_reached"] = self.stats.get("not_reached", 0) + 1
                    continue
                if exc is not None:
                    problems.append("exception escaped contexts_active_in_frame with a fault injected at line event %d (self-test included): %r" % (k, exc))
                else:
                    if not any(x.category.__name__ == "InspectionWarning" for x in w):
                        problems.append("no InspectionWarning although the trickery analysis/self-test failed at line event %d" % k)
                    problems += overapprox(res, rt, self.withs, obj_known=False)
                if problems:
                    self.fails.append((tag, n, ["[selftest-inject@%d] " % k + p for p in problems]))
            lowlevel.set_trickery_enabled(True)
            return
        res, exc, w, nlines = self.analyse(target, -1)
        self.stats["points"] = self.stats.get("points", 0) + nlines
        if exc is not None:
            self.fails.append((tag, n, ["fault-free traced run raised %r" % (exc,)]))
            return
        for k in range(nlines):
            self.nobs += 1
            res, exc, w, _ = self.analyse(target, k)
            problems = []
            if not self.fired and exc is None:
                self.stats["not_reached"] = self.stats.get("not_reached", 0) + 1
                continue
            if exc is not None:
                problems.append("exception escaped contexts_active_in_frame with a fault injected at line event %d: %r" % (k, exc))
            else:
                if not any(x.category.__name__ == "InspectionWarning" for x in w):
                    problems.append("no InspectionWarning although the trickery analysis failed at line event %d" % k)
                problems += overapprox(res, rt, self.withs, obj_known=False)
            if problems:
                self.fails.append((tag, n, ["[inject@%d] " % k + p for p in problems]))


def run_B(ctx):
    from vlib.ctxobs import run_program
    p = params(ctx.tier)
    from stackscope import lowlevel
    lowlevel.set_trickery_enabled(True)  # keep the one-off self-test out of the per-frame injection region
    stats = {}
    idx = 0
    if ctx.mine(0):
        st2 = {"selftest": True}
        body = INJECT_BODIES[1]
        npaths, nobs = run_program(body, "coro", ctx, lambda withs: InjectObserver(withs, st2), case_extra={"leg": "B", "selftest": True})
        ctx.count("selftest_injection_runs", nobs)
        ctx.count("evaluations", nobs)
        ctx.count("distinct_nontrivial", nobs)
        lowlevel.set_trickery_enabled(True)
    for body in INJECT_BODIES[:p["inject_progs"]]:
        for kind in p["inject_kinds"]:
            if not ps.kind_ok(body, kind):
                continue
            idx += 1
            if not ctx.mine(idx):
                continue
            npaths, nobs = run_program(body, kind, ctx, lambda withs: InjectObserver(withs, stats), case_extra={"leg": "B"})
            ctx.count("inject_programs")
            ctx.count("injection_runs", nobs)
            ctx.count("evaluations", nobs)
            ctx.count("distinct_nontrivial", nobs)
            ctx.sample({"leg": "B", "kind": kind, "src": ps.render(body, kind)[0]})
    ctx.count("injection_points_total", stats.get("points", 0))
    ctx.count("injection_index_not_reached", stats.get("not_reached", 0))
    ctx.count("injection_discarded_in_generator_finalizer", stats.get("in_finalizer", 0))


# ------------------------------------------------------------------ leg C: mode sequences
def run_C(ctx):
    import stackscope
    from stackscope import lowlevel
    p = params(ctx.tier)
    src, withs = ps.render((("with1", (("susp",),)),), "gen")
    fn = ps.compile_prog(src)
    rt = ps.Rt(())
    g = fn(rt)
    next(g)

    def observe():
        with warnings.catch_warnings():
            warnings.simplefilter("ignore")
            st = stackscope.extract(g)
        c = st.frames[0].contexts
        if len(c) != 1:
            return "bad:%r" % (c,)
        return "trickery" if c[0].start_line is not None else "referents"

    class Worker(threading.Thread):
        def __init__(s):
            threading.Thread.__init__(s)
            s.daemon = True
            s.req = None
            s.go = threading.Semaphore(0)
            s.done = threading.Semaphore(0)
            s.res = None

        def run(s):
            while True:
                s.go.acquire()
                if s.req is None:
                    return
                s.res = s.req()
                s.done.release()

        def call(s, f):
            s.req = f
            s.go.release()
            s.done.acquire()
            return s.res
    ws = [Worker(), Worker()]
    for w in ws:
        w.start()
    ops = []
    for t in (0, 1):
        for v in (True, False, None):
            ops.append(("set", t, v))
        ops.append(("extract", t, None))
    nseq = 0
    for L in range(1, p["seq_len"] + 1):
        for seq in itertools.product(range(len(ops)), repeat=L):
            nseq += 1
            lowlevel.set_trickery_enabled(None)
            mode = "trickery"
            bad = None
            for step, oi in enumerate(seq):
                op, t, v = ops[oi]
                if op == "set":
                    ws[t].call(lambda v=v: lowlevel.set_trickery_enabled(v))
                    mode = "referents" if v is False else "trickery"
                else:
                    got = ws[t].call(observe)
                    ctx.count("mode_observations")
                    if got != mode:
                        bad = "step %d: thread %d observed %s, expected %s" % (step, t, got, mode)
                        break
            ctx.count("evaluations")
            ctx.count("distinct_nontrivial")
            if bad:
                ctx.violation({"leg": "C", "seq": [list(ops[i]) for i in seq]}, bad, "mode")
    ctx.count("sequences", nseq)
    ctx.sample({"leg": "C", "seq": [list(ops[i]) for i in (1, 7, 3)]})
    lowlevel.set_trickery_enabled(None)
    for w in ws:
        w.req = None
        w.go.release()


# ------------------------------------------------------------------ leg D: the mode switch racing the auto-detection
D_SCENARIOS = [
    # one setter thread (ops in order) + extracting threads; the auto-detection (mode None) runs inside the first extraction
    {"setter": [False], "extractors": 1},
    {"setter": [True], "extractors": 1},
    {"setter": [False, None], "extractors": 1},
    {"setter": [False], "extractors": 2},
    {"setter": [None, False], "extractors": 1},
]


def run_D_scenario(si, bound):
    from vlib import schedx
    import stackscope
    import stackscope._lowlevel as ll
    from stackscope import lowlevel
    sc = D_SCENARIOS[si]
    sched_ref = [None]
    lock = schedx.ModelLock(sched_ref)
    orig_lock = ll._trickery_lock
    ll._trickery_lock = lock
    src, withs = ps.render((("with1", (("susp",),)),), "gen")
    fn = ps.compile_prog(src)
    g = fn(ps.Rt(()))
    next(g)
    events = []

    def mode_of(st):
        c = st.frames[0].contexts
        if len(c) != 1:
            return "bad:%r" % (c,)
        return "trickery" if c[0].start_line is not None else "referents"
    try:
        def make():
            sched_ref[0] = None
            lock.owner = None
            lowlevel.set_trickery_enabled(None)
            del events[:]
            s = schedx.Sched(trace_codes=[ll._check_trickery_available.__code__, ll.set_trickery_enabled.__code__])
            sched_ref[0] = s

            def setter(tc):
                for v in sc["setter"]:
                    s.point(("before-set", v))
                    lowlevel.set_trickery_enabled(v)
                    events.append(("set-returned", v))

            def extractor(tc):
                s.point(("before-extract", tc.name))
                seen_sets = len([e for e in events if e[0] == "set-returned"])
                import io
                import contextlib
                with warnings.catch_warnings():
                    warnings.simplefilter("ignore")
                    with contextlib.redirect_stderr(io.StringIO()):
                        st = stackscope.extract(g)
                events.append(("extracted", tc.name, mode_of(st), seen_sets))
            s.add("SET", setter)
            for i in range(sc["extractors"]):
                s.add("X%d" % i, extractor)
            return s

        def check(s, ex):
            problems = []
            sched_ref[0] = None
            for tc in s.threads:
                if tc.exc is not None:
                    problems.append("thread %s raised %r" % (tc.name, tc.exc))
            # an explicit setting is never overridden by the auto-detection: afterwards the mode is that of the last set
            last = sc["setter"][-1]
            want = "referents" if last is False else "trickery"
            with warnings.catch_warnings():
                warnings.simplefilter("ignore")
                final = mode_of(stackscope.extract(g))
            if final != want:
                problems.append("after set_trickery_enabled%r returned (racing the auto-detection), a later extraction uses %s, expected %s; events %r" % (
                    tuple(sc["setter"]), final, want, events))
            # an extraction that started after ALL sets had returned must already see the final mode
            for e in events:
                if e[0] == "extracted" and e[3] == len(sc["setter"]) and e[2] != want:
                    problems.append("extraction started after the last set returned but used %s" % e[2])
            return problems

        def outcome(s, ex):
            return tuple((e[0], e[2]) for e in events if e[0] == "extracted")
        return schedx.explore(make, check, bound, on_exec=outcome)
    finally:
        ll._trickery_lock = orig_lock
        sched_ref[0] = None
        lowlevel.set_trickery_enabled(None)


def run_D(ctx):
    bound = 2
    for si in range(len(D_SCENARIOS)):
        if not ctx.mine(si):
            continue
        res = run_D_scenario(si, bound)
        ctx.count("race_schedules", res["executions"])
        ctx.count("evaluations", res["executions"])
        ctx.count("distinct_nontrivial", res["executions"])
        ctx.sample({"leg": "D", "scenario": D_SCENARIOS[si], "schedules": res["executions"], "points": res["points"], "distinct_outcomes": res["distinct_outcomes"]})
        for choices, problems in res["violations"]:
            ctx.violation({"leg": "D", "scenario": si, "choices": choices}, "; ".join(problems)[:1200], "race:" + problems[0].split(" ")[0])


def run(ctx):
    leg = ctx.args.get("leg")
    if leg == "D":
        return run_D(ctx)
    if leg == "A":
        run_A(ctx)
    elif leg == "B":
        run_B(ctx)
    else:
        run_C(ctx)


def replay(case):
    from vlib.ctxobs import replay_case
    from stackscope import lowlevel
    if case.get("leg") == "A":
        lowlevel.set_trickery_enabled(False)
        out = replay_case(case, ReferentsObserver)
        if out or not case.get("history"):
            return out
        # not reproducible in isolation: re-run the shard's sequence (same process history) and pick this case out
        h = case["history"]

        class Rctx(object):
            tier = h["tier"]
            shard = h["shard"]
            nshards = h["nshards"]
            seed = h["seed"]
            args = {"leg": "A"}

            def __init__(s):
                s.v = []
                s.exhaustive = True

            def mine(s, index):
                return (index + s.seed) % s.nshards == s.shard

            def count(s, *a):
                pass

            def sample(s, *a):
                pass

            def inflight(s, *a):
                pass

            def violation(s, c, detail, sig):
                if c.get("src") == case.get("src") and c.get("kind") == case.get("kind") and c.get("prefix") == case.get("prefix"):
                    s.v.append({"detail": detail, "note": "reproduced by replaying the shard history"})
        r = Rctx()
        run_A(r)
        return r.v
    if case.get("leg") == "B":
        lowlevel.set_trickery_enabled(True)
        st = {"selftest": True} if case.get("selftest") else {}
        return replay_case(case, lambda withs: InjectObserver(withs, st))
    if case.get("leg") == "D":
        from vlib import schedx
        orig = schedx.explore

        def one(make, check, bound, on_exec=None, max_execs=None, first_prefix=()):
            sch = make()
            ex = sch.run(tuple(case["choices"]))
            if ex.diverged:
                raise schedx.HarnessError(ex.diverged)
            probs = (["deadlock"] if ex.deadlock else []) + check(sch, ex)
            return {"executions": 1, "points": len(ex.points), "violations": [(case["choices"], probs)] if probs else [], "capped": False, "distinct_outcomes": 1}
        schedx.explore = one
        try:
            res = run_D_scenario(case["scenario"], 0)
        finally:
            schedx.explore = orig
        return [{"detail": "; ".join(p)} for c, p in res["violations"]]
    # leg C: re-run the single sequence
    import stackscope
    src, withs = ps.render((("with1", (("susp",),)),), "gen")
    g = ps.compile_prog(src)(ps.Rt(()))
    next(g)
    out = []
    mode = "trickery"
    lowlevel.set_trickery_enabled(None)
    for step, (op, t, v) in enumerate(case["seq"]):
        res = []

        def do():
            if op == "set":
                lowlevel.set_trickery_enabled(v)
            else:
                with warnings.catch_warnings():
                    warnings.simplefilter("ignore")
                    c = stackscope.extract(g).frames[0].contexts
                res.append("trickery" if c and c[0].start_line is not None else "referents")
        th = threading.Thread(target=do)
        th.start()
        th.join()
        if op == "set":
            mode = "referents" if v is False else "trickery"
        elif res[0] != mode:
            out.append({"detail": "step %d: observed %s expected %s" % (step, res[0], mode)})
    return out
