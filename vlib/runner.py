"""Orchestrator: shards a property's bounded-exhaustive enumeration over worker
processes of every present interpreter, merges their counts, re-executes every
reported violation from its replay file, consults known_findings.json, writes
the evidence file and prints VIOLATION / KNOWN-FINDING lines.

Run with /venv/bin/python (3.12).  Workers (vlib/worker.py) are 3.9-compatible.
"""
import json
import os
import subprocess
import sys
import time
import importlib
import collections

VERIF = os.path.dirname(os.path.dirname(os.path.abspath(__file__)))
REPO = os.environ.get("VERIF_REPO", "/repo")   # seedcheck.py points this at a scratch worktree holding a seeded change
EVIDENCE_DIR = os.environ.get("VERIF_EVIDENCE_DIR", os.path.join(VERIF, "evidence"))
PYENV = "/root/.pyenv/versions"
INTERPS = {
    "3.9": PYENV + "/3.9.18/bin/python",
    "3.10": PYENV + "/3.10.13/bin/python",
    "3.11": PYENV + "/3.11.7/bin/python",
    "3.12": "/venv/bin/python",
}
ALL = ["3.9", "3.10", "3.11", "3.12"]
NCPU = os.cpu_count() or 4


def present(interp):
    return os.path.exists(INTERPS[interp])


def worker_env(interp, seed):
    env = dict(os.environ)
    paths = [VERIF]
    if interp != "3.12":
        paths += [REPO, VERIF + "/build/pydeps", VERIF + "/shims"]
    elif REPO != "/repo":
        paths += [REPO]   # takes precedence over the editable install of /repo
    env["PYTHONPATH"] = os.pathsep.join(paths)
    env["PYTHONHASHSEED"] = "0"
    env["PYTHONDONTWRITEBYTECODE"] = "1"
    env["VERIF_SEED"] = str(seed)
    env["STACKSCOPE_VERIF"] = "1"
    env.pop("PYTHONSTARTUP", None)
    return env


def ensure_setup():
    dst = VERIF + "/build/pydeps/typing_extensions.py"
    if not os.path.exists(dst):
        subprocess.check_call([VERIF + "/setup.sh"])


class Leg:
    def __init__(self, interp, nshards=1, args=None, name=None, timeout=3600):
        self.interp = interp
        self.nshards = nshards
        self.args = args or {}
        self.name = name or interp
        self.timeout = timeout


def run_workers(prop, tier, seed, legs, outdir):
    """Run all (leg, shard) jobs, at most NCPU at a time. Returns list of
    (leg, shard, result-dict or None, returncode, stderr-tail)."""
    jobs = []
    for leg in legs:
        for sh in range(leg.nshards):
            jobs.append((leg, sh))
    # rotate start order by seed (set of jobs is fixed)
    if jobs:
        r = seed % len(jobs)
        jobs = jobs[r:] + jobs[:r]
    pending = collections.deque(jobs)
    running = []
    done = []
    maxpar = int(os.environ.get("VERIF_JOBS", NCPU))
    while pending or running:
        while pending and len(running) < maxpar:
            leg, sh = pending.popleft()
            out = os.path.join(outdir, "%s-%s-%d.json" % (prop, leg.name, sh))
            inflight = os.path.join(outdir, "inflight-%s-%s-%d.json" % (prop, leg.name, sh))
            for p in (out, inflight):
                if os.path.exists(p):
                    os.unlink(p)
            cmd = [INTERPS[leg.interp], "-X", "faulthandler", VERIF + "/vlib/worker.py",
                   "--prop", prop, "--tier", tier, "--shard", str(sh),
                   "--nshards", str(leg.nshards), "--seed", str(seed),
                   "--args", json.dumps(leg.args), "--out", out, "--inflight", inflight]
            errf = open(out + ".stderr", "wb")
            p = subprocess.Popen(cmd, env=worker_env(leg.interp, seed), stdout=errf,
                                 stderr=subprocess.STDOUT, cwd=VERIF)
            running.append((leg, sh, p, out, inflight, errf, time.time()))
        time.sleep(0.02)
        still = []
        for item in running:
            leg, sh, p, out, inflight, errf, t0 = item
            rc = p.poll()
            if rc is None:
                if time.time() - t0 > leg.timeout * (1 if tier == "quick" else 4):   # thorough legs may run for hours on a busy machine
                    p.kill()
                    p.wait()
                    rc = -999
                else:
                    still.append(item)
                    continue
            errf.close()
            try:
                with open(out + ".stderr", "rb") as f:
                    f.seek(0, 2)
                    n = f.tell()
                    f.seek(max(0, n - 3000))
                    tail = f.read().decode("utf-8", "replace")
            except OSError:
                tail = ""
            res = None
            if os.path.exists(out):
                try:
                    with open(out) as f:
                        res = json.load(f)
                except Exception:
                    res = None
            infl = None
            if os.path.exists(inflight):
                try:
                    with open(inflight) as f:
                        infl = json.load(f)
                except Exception:
                    infl = None
            done.append((leg, sh, res, rc, tail, infl))
        running = still
    return done


def replay_once(prop, interp, case, seed, outdir, tag):
    path = os.path.join(outdir, "replaycase-%s.json" % tag)
    with open(path, "w") as f:
        json.dump({"property": prop, "interp": interp, "case": case}, f)
    out = path + ".out"
    if os.path.exists(out):
        os.unlink(out)
    cmd = [INTERPS[interp], "-X", "faulthandler", VERIF + "/vlib/worker.py", "--prop", prop,
           "--replay", path, "--out", out]
    p = subprocess.run(cmd, env=worker_env(interp, seed), cwd=VERIF,
                       stdout=subprocess.PIPE, stderr=subprocess.STDOUT, timeout=600)
    res = None
    if os.path.exists(out):
        with open(out) as f:
            res = json.load(f)
        os.unlink(out)
    os.unlink(path)
    return p.returncode, res, p.stdout.decode("utf-8", "replace")


def load_known():
    p = VERIF + "/known_findings.json"
    if not os.path.exists(p):
        return []
    with open(p) as f:
        return json.load(f).get("findings", [])


def main_check(prop_id, tier, seed):
    t0 = time.time()
    ensure_setup()
    mod = importlib.import_module("vlib.props.%s" % prop_id.lower())
    outdir = os.path.join(VERIF, "build", "runs", prop_id)
    repdir = os.path.join(VERIF, "replays", prop_id)
    if os.environ.get("VERIF_EVIDENCE_DIR"):
        # experiment against another tree (seeded change): keep every by-product away from /verif's own
        outdir = os.path.join(os.environ["VERIF_EVIDENCE_DIR"], "runs", prop_id)
        repdir = os.path.join(os.environ["VERIF_EVIDENCE_DIR"], "replays", prop_id)
    os.makedirs(outdir, exist_ok=True)
    os.makedirs(repdir, exist_ok=True)
    legs = []
    absent = []
    for leg in mod.legs(tier):
        if present(leg.interp):
            legs.append(leg)
        else:
            absent.append(leg.name)
    results = run_workers(prop_id, tier, seed, legs, outdir)

    merged = collections.Counter()
    per_leg = {}
    samples = []
    violations = []  # (interp, vio dict)
    harness_errors = []
    exhaustive = True
    for leg, sh, res, rc, tail, infl in results:
        key = leg.name
        if res is None:
            if rc is not None and rc < 0 and rc != -999 and infl is not None:
                # worker died on a signal: the in-flight case is a crash violation
                csig = "crash"
                if hasattr(mod, "crash_sig"):
                    csig = mod.crash_sig(leg.interp, infl) or "crash"
                violations.append((leg.interp, {"case": infl, "detail": "worker died with signal %d while running this case" % (-rc), "sig": csig, "crash": True}))
                exhaustive = False
                continue
            harness_errors.append("leg %s shard %d: rc=%s, no result\n%s" % (key, sh, rc, tail))
            continue
        if rc != 0:
            harness_errors.append("leg %s shard %d: rc=%s\n%s" % (key, sh, rc, tail))
        c = res.get("counters", {})
        pl = per_leg.setdefault(key, collections.Counter())
        for k, v in c.items():
            if isinstance(v, (int, float)):
                if k.startswith("max_"):
                    merged[k] = max(merged[k], v)
                    pl[k] = max(pl[k], v)
                else:
                    merged[k] += v
                    pl[k] += v
        if not res.get("exhaustive", True):
            exhaustive = False
        if len(samples) < 6 and res.get("samples"):
            samples.extend(res["samples"][:2])
        for v in res.get("violations", []):
            violations.append((leg.interp, v))

    known = load_known()
    open_sigs = {}
    for k in known:
        if k.get("status") == "open" and k.get("property") == prop_id:
            open_sigs[k["signature"]] = k

    if harness_errors:
        for h in harness_errors:
            sys.stderr.write("HARNESS-ERROR %s\n" % h)

    # confirm each violation by replaying it once in a fresh process
    confirmed = []
    known_hits = collections.Counter()
    nonrepro = []
    seen_keys = set()
    nrep = 0
    max_confirm = int(os.environ.get("VERIF_MAX_CONFIRM", "12"))
    for interp, v in violations:
        sig = v.get("sig", "")
        if sig in open_sigs:
            known_hits[sig] += 1
            continue
        key = json.dumps(v["case"], sort_keys=True, default=str)
        if key in seen_keys:
            continue
        seen_keys.add(key)
        if len(confirmed) >= max_confirm:
            continue
        nrep += 1
        tag = "%s-%d" % (prop_id, nrep)
        try:
            rc, rres, out = replay_once(prop_id, interp, v["case"], seed, outdir, tag)
        except subprocess.TimeoutExpired:
            rc, rres, out = -998, None, "replay timed out"
        reproduced = (rc is not None and rc < 0) or (rres is not None and rres.get("violations"))
        if v.get("crash") and not reproduced:
            # crashes may be timing dependent; keep as violation anyway (cannot be a harness bug: process died)
            reproduced = True
        if reproduced:
            rp = os.path.join(repdir, "%s-%03d.json" % (prop_id, len(confirmed) + 1))
            with open(rp, "w") as f:
                json.dump({"property": prop_id, "interp": interp, "case": v["case"],
                           "detail": v.get("detail"), "sig": sig,
                           "replay_detail": (rres or {}).get("violations")}, f, indent=1, default=str)
            confirmed.append((rp, interp, v))
        else:
            nonrepro.append((interp, v, out[-1500:]))

    for sig, n in known_hits.items():
        print("KNOWN-FINDING: property=%s %s (%d cases) [%s]" % (prop_id, open_sigs[sig].get("what", ""), n, sig))
    for rp, interp, v in confirmed:
        print("VIOLATION property=%s replay=%s" % (prop_id, rp))
        print("  interp=%s sig=%s detail=%s" % (interp, v.get("sig"), str(v.get("detail"))[:600]))

    level = getattr(mod, "LEVEL", "exploration")
    cov = {
        "evaluations": int(merged.get("evaluations", 0)),
        "distinct_nontrivial": int(merged.get("distinct_nontrivial", 0)),
        "rule": getattr(mod, "RULE", ""),
        "samples": samples[:6] or ["<none>"],
        "exhaustive": bool(exhaustive and not harness_errors),
        "counters": {k: v for k, v in sorted(merged.items())},
        "per_leg": {k: dict(v) for k, v in sorted(per_leg.items())},
        "legs_not_present": absent,
        "violations_reported_by_workers": len(violations),
        "known_finding_cases": int(sum(known_hits.values())),
        "replays_not_reproduced": len(nonrepro),
    }
    if level == "model_checking":
        cov["states"] = int(merged.get("states", 0))
        cov["transitions"] = int(merged.get("transitions", 0))
        cov["traces_validated_against_impl"] = int(merged.get("traces_validated_against_impl", merged.get("evaluations", 0)))
    if hasattr(mod, "bounds"):
        cov["bounds"] = mod.bounds(tier)
    ev = {
        "property_id": prop_id,
        "tier": tier,
        "seed": seed,
        "level": level,
        "coverage": cov,
        "assumptions": list(getattr(mod, "ASSUMPTIONS", [])),
        "wall_s": round(time.time() - t0, 2),
        "violations": len(confirmed),
    }
    os.makedirs(EVIDENCE_DIR, exist_ok=True)
    tmp = EVIDENCE_DIR + "/%s.json.tmp" % prop_id
    with open(tmp, "w") as f:
        json.dump(ev, f, indent=1, default=str)
    os.replace(tmp, EVIDENCE_DIR + "/%s.json" % prop_id)

    summary = "%s %s: evaluations=%d distinct_nontrivial=%d violations=%d known=%d wall=%.1fs" % (
        prop_id, tier, cov["evaluations"], cov["distinct_nontrivial"], len(confirmed),
        cov["known_finding_cases"], time.time() - t0)
    print(summary)
    if nonrepro:
        for interp, v, out in nonrepro[:5]:
            sys.stderr.write("HARNESS-ERROR: violation did not reproduce on replay (interp=%s): %s\n%s\n" % (
                interp, json.dumps(v, default=str)[:800], out))
    if confirmed:
        return 1
    if nonrepro:
        return 2
    if harness_errors:
        return 2
    return 0


def main_replay(prop_id, path):
    ensure_setup()
    with open(path) as f:
        data = json.load(f)
    interp = data.get("interp", "3.12")
    outdir = os.path.join(VERIF, "build", "runs", prop_id)
    os.makedirs(outdir, exist_ok=True)
    rc, rres, out = replay_once(prop_id, interp, data["case"], 0, outdir, "manual")
    print(out)
    if rc is not None and rc < 0:
        print("replay: worker died with signal %d" % -rc)
        return 1
    if rres and rres.get("violations"):
        for v in rres["violations"]:
            print("REPRODUCED: %s" % json.dumps(v, default=str)[:2000])
        return 1
    print("replay: no violation")
    return 0


def main(argv):
    if len(argv) < 2:
        print("usage: vcheck <ID> quick|thorough | vcheck <ID> --replay <file>")
        return 2
    prop_id = argv[0].upper()
    if argv[1] == "--replay":
        return main_replay(prop_id, argv[2])
    tier = argv[1]
    seed = int(os.environ.get("VERIF_SEED", "0") or 0)
    return main_check(prop_id, tier, seed)


if __name__ == "__main__":
    sys.exit(main(sys.argv[1:]))
