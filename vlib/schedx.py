"""E3 `schedx`: stateless schedule explorer for real threads (CHESS-style, preemption-bounded).

Threads are ordinary threading.Thread objects; exactly one runs at a time (baton = per-thread semaphore).
Scheduling points: sys.settrace 'line' events inside a configured set of code objects, ModelLock
acquire/release, and explicit point() calls in driver code.  explore() replays a choice prefix on a
fresh set of threads (fresh state via the user's factory), takes choice 0 (keep running the current thread
if it is enabled, else the lowest id) afterwards, and branches on every alternative whose cumulative
preemption count stays within the bound.  Python 3.9 compatible."""
import sys
import threading

_REAL_LOCK = threading.Lock
_REAL_SEM = threading.Semaphore


class HarnessError(Exception):
    pass


class ThreadCtl(object):
    def __init__(self, sched, idx, name, fn):
        self.sched = sched
        self.idx = idx
        self.name = name
        self.fn = fn
        self.go = _REAL_SEM(0)
        self.finished = False
        self.blocked_on = None
        self.exc = None
        self.result = None
        self.label = None
        self.thread = None
        self.npoints = 0


class ModelLock(object):
    """Drop-in for threading.Lock whose blocking is visible to the scheduler."""

    def __init__(self, sched_ref):
        self._sched_ref = sched_ref
        self.owner = None

    def acquire(self, blocking=True, timeout=-1):
        sched = self._sched_ref[0]
        tc = sched.current() if sched is not None else None
        if tc is None:
            if self.owner is not None:
                raise HarnessError("ModelLock contended outside the scheduler")
            self.owner = "external"
            return True
        sched.point(("lock-acquire", tc.name))
        while self.owner is not None:
            if not blocking:
                return False
            tc.blocked_on = self
            sched.switch_away(tc)
        tc.blocked_on = None
        self.owner = tc
        return True

    def release(self):
        self.owner = None

    def locked(self):
        return self.owner is not None

    def __enter__(self):
        self.acquire()
        return self

    def __exit__(self, *a):
        self.release()


class Execution(object):
    def __init__(self):
        self.points = []   # (order names, chosen idx, current_enabled(bool), label)
        self.choices = []
        self.deadlock = False
        self.threads = None
        self.diverged = None


class Sched(object):
    def __init__(self, trace_codes=(), trace_filter=None):
        self.trace_codes = set(trace_codes)
        self.trace_filter = trace_filter
        self.ctl = _REAL_SEM(0)
        self.threads = []
        self.by_ident = {}
        self.cur = None

    def current(self):
        return self.by_ident.get(threading.get_ident())

    def add(self, name, fn):
        tc = ThreadCtl(self, len(self.threads), name, fn)
        self.threads.append(tc)
        return tc

    # -- called from worker threads
    def point(self, label=None):
        tc = self.current()
        if tc is None:
            return
        tc.label = label
        tc.npoints += 1
        self.switch_away(tc)

    def switch_away(self, tc):
        self.ctl.release()
        tc.go.acquire()

    def _tracer(self, frame, event, arg):
        if frame.f_code in self.trace_codes:
            return self._local
        return None

    def _local(self, frame, event, arg):
        if event == "line":
            if self.trace_filter is None or self.trace_filter(frame):
                self.point((frame.f_code.co_name, frame.f_lineno))
        return self._local

    def _body(self, tc):
        self.by_ident[threading.get_ident()] = tc
        tc.go.acquire()
        if self.trace_codes:
            sys.settrace(self._tracer)
        try:
            tc.result = tc.fn(tc)
        except BaseException as ex:  # noqa
            tc.exc = ex
        finally:
            sys.settrace(None)
            tc.finished = True
            self.ctl.release()

    # -- controller
    def run(self, prefix, max_points=20000):
        ex = Execution()
        ex.threads = self.threads
        for tc in self.threads:
            tc.thread = threading.Thread(target=self._body, args=(tc,))
            tc.thread.daemon = True
            tc.thread.start()
        cur = None
        first = True
        while True:
            if not first:
                self.ctl.acquire()
            first = False
            unfinished = [t for t in self.threads if not t.finished]
            if not unfinished:
                break
            enabled = [t for t in unfinished if not (t.blocked_on is not None and t.blocked_on.owner is not None)]
            if not enabled:
                ex.deadlock = True
                break
            cur_enabled = cur is not None and cur in enabled
            order = ([cur] if cur_enabled else []) + [t for t in enabled if t is not cur]
            i = len(ex.choices)
            if i < len(prefix):
                c = prefix[i]
                if c >= len(order):
                    ex.diverged = "choice %d out of range at point %d (enabled %r)" % (c, i, [t.name for t in order])
                    c = 0
            else:
                c = 0
            ex.points.append(([t.name for t in order], c, cur_enabled, cur.label if cur is not None else None))
            ex.choices.append(c)
            cur = order[c]
            if len(ex.choices) > max_points:
                ex.diverged = "more than %d scheduling points" % max_points
                break
            cur.go.release()
        if ex.deadlock or ex.diverged:
            # cannot join blocked threads; they are daemons and stay parked
            return ex
        for tc in self.threads:
            tc.thread.join()
        return ex


def preemptions_before(ex, i):
    n = 0
    for (order, c, cur_enabled, label) in ex.points[:i]:
        if cur_enabled and c != 0:
            n += 1
    return n


def explore(make, check, bound, on_exec=None, max_execs=None, first_prefix=()):
    """make() -> Sched with threads added (fresh state each time).
    check(sched, execution) -> list of problems.
    Returns dict(executions, points, violations=[(choices, problems)], capped)."""
    stack = [tuple(first_prefix)]
    nexec = 0
    npoints = 0
    violations = []
    capped = False
    outcomes = set()
    while stack:
        prefix = stack.pop()
        sched = make()
        ex = sched.run(prefix)
        nexec += 1
        npoints += len(ex.points)
        if ex.diverged:
            raise HarnessError("schedule replay diverged: %s (prefix %r)" % (ex.diverged, prefix))
        problems = []
        if ex.deadlock:
            problems.append("deadlock: no enabled thread; blocked: %r" % ([t.name for t in sched.threads if not t.finished],))
        problems += check(sched, ex)
        if on_exec is not None:
            outcomes.add(on_exec(sched, ex))
        if problems:
            violations.append((list(ex.choices), problems))
            if len(violations) >= 5:
                break
        if max_execs is not None and nexec >= max_execs:
            capped = bool(stack)
            break
        for i in range(len(prefix), len(ex.points)):
            order, c, cur_enabled, label = ex.points[i]
            cost = preemptions_before(ex, i)
            for alt in range(1, len(order)):
                cc = cost + (1 if cur_enabled else 0)
                if cc <= bound:
                    stack.append(tuple(ex.choices[:i]) + (alt,))
    return {"executions": nexec, "points": npoints, "violations": violations, "capped": capped,
            "distinct_outcomes": len(outcomes)}
