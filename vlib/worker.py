"""Worker process: runs one shard of one property's enumeration on the
interpreter that executes this file.  Must stay Python 3.9 compatible."""
import argparse
import importlib
import json
import os
import sys
import time

sys.path.insert(0, os.path.dirname(os.path.dirname(os.path.abspath(__file__))))


class Ctx(object):
    def __init__(self, tier, shard, nshards, seed, args, inflight_path):
        self.tier = tier
        self.shard = shard
        self.nshards = nshards
        self.seed = seed
        self.args = args
        self.inflight_path = inflight_path
        self.counters = {}
        self.samples = []
        self.violations = []
        self.nviol = 0
        self.exhaustive = True
        self.pyver = "%d.%d" % sys.version_info[:2]
        self._distinct = set()
        self.max_viol = 25

    def mine(self, index):
        """True if case number `index` belongs to this shard."""
        return (index + self.seed) % self.nshards == self.shard

    def count(self, key, n=1):
        self.counters[key] = self.counters.get(key, 0) + n

    def distinct(self, key):
        """Record a distinct non-trivial case key (counted once)."""
        if key not in self._distinct:
            self._distinct.add(key)
            self.counters["distinct_nontrivial"] = self.counters.get("distinct_nontrivial", 0) + 1

    def sample(self, s):
        if len(self.samples) < 3:
            self.samples.append(s)

    def inflight(self, case):
        if self.inflight_path:
            with open(self.inflight_path, "w") as f:
                json.dump(case, f, default=str)

    def violation(self, case, detail, sig=""):
        self.nviol += 1
        self.count("violating_observations")
        if len(self.violations) < self.max_viol:
            self.violations.append({"case": case, "detail": detail, "sig": sig})

    def result(self):
        return {
            "counters": self.counters,
            "samples": self.samples,
            "violations": self.violations,
            "nviol": self.nviol,
            "exhaustive": self.exhaustive,
            "pyver": self.pyver,
        }


def main():
    ap = argparse.ArgumentParser()
    ap.add_argument("--prop", required=True)
    ap.add_argument("--tier", default="quick")
    ap.add_argument("--shard", type=int, default=0)
    ap.add_argument("--nshards", type=int, default=1)
    ap.add_argument("--seed", type=int, default=0)
    ap.add_argument("--args", default="{}")
    ap.add_argument("--out", required=True)
    ap.add_argument("--inflight", default=None)
    ap.add_argument("--replay", default=None)
    a = ap.parse_args()
    mod = importlib.import_module("vlib.props.%s" % a.prop.lower())
    if a.replay:
        with open(a.replay) as f:
            data = json.load(f)
        vio = mod.replay(data["case"])
        for v in vio:
            print("REPLAY-VIOLATION: %s" % json.dumps(v, default=str)[:3000])
        with open(a.out, "w") as f:
            json.dump({"violations": vio}, f, default=str)
        return 0
    ctx = Ctx(a.tier, a.shard, a.nshards, a.seed, json.loads(a.args), a.inflight)
    t0 = time.time()
    mod.run(ctx)
    res = ctx.result()
    res["wall_s"] = round(time.time() - t0, 2)
    tmp = a.out + ".tmp"
    with open(tmp, "w") as f:
        json.dump(res, f, default=str)
    os.replace(tmp, a.out)
    if a.inflight and os.path.exists(a.inflight):
        os.unlink(a.inflight)
    return 0


if __name__ == "__main__":
    sys.exit(main())
